"""History operations: plain-data descriptions of public Table calls, a
strategy generating them and an interpreter applying them to a real table.

A history is *not* modelled: properties re-read ground truth after it with
observe.snapshot().  Its purpose is to leave the table in the internal
representation (CSR/CSC, unsorted indices, stored zeros, re-built indexes)
that real use leaves behind."""
import numpy as np
from hypothesis import strategies as st

AX = st.sampled_from(["sample", "observation"])
KEY = st.lists(st.integers(0, 5), min_size=8, max_size=8)
# 13 (prime, >= the largest quick-tier axis): tiling a shorter mask would tie
# position i to position i+8 and never select e.g. {1, 8} without 0 and 9
MASK = st.lists(st.booleans(), min_size=13, max_size=13)


def perm_from_key(n, key):
    """A permutation of range(n) determined by `key` (any length >= 1)."""
    k = len(key)
    return sorted(range(n), key=lambda i: (key[i % k], -i if key[0] % 2 else i))


def mask_for(n, mask):
    k = len(mask)
    out = [bool(mask[i % k]) for i in range(n)]
    if n and not any(out):
        out[0] = True
    return out


def read_ops():
    """Content-preserving operations (layout may change)."""
    return st.one_of(
        st.just({"op": "nnz"}),
        st.builds(lambda a, i: {"op": "data", "axis": a, "i": i}, AX,
                  st.integers(0, 7)),
        st.builds(lambda a: {"op": "iter", "axis": a}, AX),
        st.builds(lambda a: {"op": "sum", "axis": a},
                  st.sampled_from(["sample", "observation", "whole"])),
        st.just({"op": "eq_copy"}),
        st.just({"op": "str"}),
        st.just({"op": "copy"}),
        st.just({"op": "nonzero"}),
        st.builds(lambda a, k: {"op": "sort_rt", "axis": a, "key": k}, AX, KEY),
        st.builds(lambda a, h, ip: {"op": "filter_all", "axis": a, "how": h,
                                    "inplace": ip}, AX,
                  st.sampled_from(["ids", "pred"]), st.booleans()),
    )


def write_ops(counts=False):
    base = [
        st.builds(lambda a, k: {"op": "sort", "axis": a, "key": k}, AX, KEY),
        st.builds(lambda a, k: {"op": "sort", "axis": a, "key": k}, AX, KEY),
        st.builds(lambda a, mk, ip, h: {"op": "filter", "axis": a, "mask": mk,
                                        "inplace": ip, "how": h},
                  AX, MASK, st.booleans(), st.sampled_from(["ids", "pred"])),
        st.builds(lambda a, ip: {"op": "scale", "axis": a, "inplace": ip},
                  AX, st.booleans()),
        st.builds(lambda a, ip: {"op": "zero_max", "axis": a, "inplace": ip},
                  AX, st.booleans()),
        st.builds(lambda a, s: {"op": "rename", "axis": a, "suffix": s}, AX,
                  st.sampled_from(["_r", "-renamed-longer", "x"])),
        st.just({"op": "transpose"}),
        # the table is written out and loaded again: most tables in real
        # programs were loaded from a file, not built in memory
        st.builds(lambda v: {"op": "reload", "via": v},
                  st.sampled_from(["json", "hdf5"])),
    ]
    if counts:
        base.append(st.builds(
            lambda a, n, s: {"op": "subsample", "axis": a, "n": n, "seed": s},
            AX, st.integers(1, 6), st.integers(0, 2 ** 16)))
    return st.one_of(*base)


def histories(kind="any", counts=False, max_size=4, poke=False):
    if kind == "read":
        el = read_ops()
    elif kind == "write":
        el = write_ops(counts)
    else:
        el = st.one_of(read_ops(), write_ops(counts))
    body = st.lists(el, min_size=0, max_size=max_size)
    # the last step decides the internal layout the operation under test
    # finds: a per-sample read leaves CSC, a per-observation read CSR, a
    # reordering leaves unsorted indices / a re-built index
    layout = [st.builds(lambda a, i: [{"op": "data", "axis": a, "i": i}],
                        st.just("sample"), st.integers(0, 7)),
              st.builds(lambda a: [{"op": "iter", "axis": a}],
                        st.just("sample")),
              st.builds(lambda a, i: [{"op": "data", "axis": a, "i": i}],
                        st.just("observation"), st.integers(0, 7))]
    # a read on one axis followed by an in-place edit along the other (or
    # the same) axis: what a cache filled by the read must not survive
    edit_ = st.one_of(
        st.builds(lambda a: {"op": "scale", "axis": a, "inplace": True}, AX),
        st.builds(lambda a: {"op": "zero_max", "axis": a, "inplace": True},
                  AX),
        st.builds(lambda a, mk: {"op": "filter", "axis": a, "mask": mk,
                                 "inplace": True, "how": "ids"}, AX, MASK))
    read_ = st.one_of(
        st.builds(lambda a, i: {"op": "data", "axis": a, "i": i}, AX,
                  st.integers(0, 7)),
        st.builds(lambda a: {"op": "iter", "axis": a}, AX),
        st.just({"op": "str"}), st.just({"op": "nnz"}),
        st.builds(lambda a: {"op": "sum", "axis": a},
                  st.sampled_from(["sample", "observation"])))
    if kind != "read":
        layout = layout + [st.tuples(read_, edit_).map(list),
                           st.tuples(read_, read_, edit_).map(list)]
    if kind == "read":
        tail = st.one_of(
            st.just([]), st.just([]), *layout,
            st.builds(lambda a, k: [{"op": "sort_rt", "axis": a, "key": k}],
                      AX, KEY))
    else:
        tail = st.one_of(
            st.just([]), st.just([]), *layout,
            st.builds(lambda a, k: [{"op": "sort", "axis": a, "key": k}],
                      AX, KEY))
    if poke:
        # the caller zeroes a stored entry of the live matrix in place
        # (`table.matrix_data.data[k] = 0`): an explicitly stored zero
        zp = st.one_of(st.just([]), st.just([]), st.builds(
            lambda k: [{"op": "store_zero", "k": k}], st.integers(0, 30)))
        return st.tuples(body, tail, zp).map(
            lambda bt: bt[0] + bt[1] + bt[2])
    return st.tuples(body, tail).map(lambda bt: bt[0] + bt[1])


def apply_history(t, ops, rec=None):
    for op in ops:
        try:
            t2 = apply_op(t, op)
        except _Skip:
            if rec is not None:
                rec.skip("history:" + op["op"])
            continue
        except Exception:
            # a defect inside a history operation belongs to C05/C06/C07;
            # here the step is dropped and counted
            if rec is not None:
                rec.skip("history-raised:" + op["op"])
            continue
        t = t2
        if rec is not None:
            rec.cls("hist:" + op["op"])
    return t


class _Skip(Exception):
    pass


def apply_op(t, op):
    """Apply one history operation; returns the (possibly new) table."""
    name = op["op"]
    if name == "nnz":
        t.nnz
        return t
    if name == "data":
        ids = t.ids(axis=op["axis"])
        t.data(ids[op["i"] % len(ids)], axis=op["axis"])
        return t
    if name == "iter":
        for _ in t.iter(axis=op["axis"]):
            pass
        return t
    if name == "sum":
        t.sum(axis=op["axis"])
        return t
    if name == "eq_copy":
        t == t.copy()
        return t
    if name == "str":
        str(t)
        return t
    if name == "nonzero":
        list(t.nonzero())
        return t
    if name == "copy":
        return t.copy()
    if name == "sort_rt":
        ids = list(t.ids(axis=op["axis"]))
        p = perm_from_key(len(ids), op["key"])
        t2 = t.sort_order([ids[i] for i in p], axis=op["axis"])
        return t2.sort_order(ids, axis=op["axis"])
    if name == "filter_all":
        if op["how"] == "ids":
            sel = list(t.ids(axis=op["axis"]))
        else:
            def sel(v, i, md):
                return True
        return t.filter(sel, axis=op["axis"], inplace=op["inplace"])
    if name == "sort":
        ids = list(t.ids(axis=op["axis"]))
        p = perm_from_key(len(ids), op["key"])
        return t.sort_order([ids[i] for i in p], axis=op["axis"])
    if name == "filter":
        ids = list(t.ids(axis=op["axis"]))
        mk = mask_for(len(ids), op["mask"])
        keep = [i for i, k in zip(ids, mk) if k]
        if op["how"] == "ids":
            sel = keep
        else:
            ks = set(keep)

            def sel(v, i, md):
                return i in ks
        return t.filter(sel, axis=op["axis"], inplace=op["inplace"])
    if name == "scale":
        def f(v, i, md):
            return v * 2
        return t.transform(f, axis=op["axis"], inplace=op["inplace"])
    if name == "zero_max":
        # a transform that zeroes some entries (the kernel writes zeros into
        # the stored data; the table must not keep them as entries)
        def g(v, i, md):
            return np.where(v == v.max(), 0.0, v) if v.size > 1 else v
        return t.transform(g, axis=op["axis"], inplace=op["inplace"])
    if name == "store_zero":
        m = t.matrix_data
        if m.format not in ("csr", "csc") or m.data.size == 0:
            raise _Skip()
        m.data[op["k"] % m.data.size] = 0.0
        return t
    if name == "rename":
        ids = list(t.ids(axis=op["axis"]))
        return t.update_ids({i: i + op["suffix"] for i in ids},
                            axis=op["axis"], inplace=True)
    if name == "transpose":
        return t.transpose()
    if name == "reload":
        # (a loaded table keeps only the text of group metadata and cannot
        # be written to HDF5 again: not reloaded)
        if t.is_empty() or t.group_metadata("sample") or \
                t.group_metadata("observation"):
            raise _Skip()
        if op["via"] == "json":
            import io
            from biom.parse import parse_biom_table
            return parse_biom_table(io.StringIO(t.to_json("vf")))
        # HDF5 holds per-category-homogeneous metadata only; reload what is
        # trivially inside that domain: no metadata, or the same plain-text
        # categories on every ID
        for axis in ("sample", "observation"):
            md = t.metadata(axis=axis)
            if md is None:
                continue
            keys = set(md[0].keys()) if md[0] else None
            for m in md:
                if not m or set(m.keys()) != keys or not all(
                        isinstance(k, str) and k and isinstance(v, str)
                        for k, v in m.items()):
                    raise _Skip()
        from biom import Table
        from .h5spec import mem_file
        with mem_file() as f:
            t.to_hdf5(f, "vf")
            return Table.from_hdf5(f)
    if name == "subsample":
        v = np.asarray(t.matrix_data.tocoo().data)
        if v.size and (np.any(v < 0) or np.any(v != np.floor(v))):
            raise _Skip()
        r = t.subsample(op["n"], axis=op["axis"], seed=op["seed"])
        if r.is_empty():
            raise _Skip()
        return r
    raise ValueError("unknown history op %r" % (op,))
