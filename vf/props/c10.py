"""C10 - concatenation places every operand's block unchanged and pads with
zeros."""
import numpy as np
from hypothesis import strategies as st

from .. import gen, ops, observe
from ..model import Ref
from ..core import Violation

ID = "C10"
LEVEL = "exploration"
RULE = ("k = 1..4 tables with pairwise disjoint IDs on the concatenation axis "
        "and arbitrary overlap/order on the other axis (identical, permuted, "
        "partially missing, disjoint) x axis x metadata presence x entry "
        "point {Table.concat(list), Table.concat(single table), biom.concat}"
        " x histories, plus non-disjoint operand sets (must raise); oracle = "
        "dense model; non-trivial = >= 2 operands of which one lacks an "
        "other-axis ID and one has a different other-axis order, with >= 1 "
        "non-zero; distinct = canonical hash")
BUDGET = {"quick": {"shards": 16, "examples": 250},
          "thorough": {"shards": 16, "examples": 5000}}
ASSUMPTIONS = ["order of the other axis in the result is not part of the "
               "property (compared as a duplicate-free set)"]

UNI = ["U%d" % i for i in range(6)] + ["u10", "u2", "Uncultured;k__7 x"]


@st.composite
def cases(draw, tier):
    axis = draw(ops.AX)
    k = draw(st.sampled_from([1, 2, 2, 2, 3, 3, 4]))
    values = draw(st.sampled_from(["int", "dyadic", "count", "frac"]))
    entry = draw(st.sampled_from(["method_list", "method_list", "function",
                                  "method_single"]))
    if entry == "method_single":
        k = 2
    base_other = draw(st.lists(st.sampled_from(UNI), min_size=1, max_size=5,
                               unique=True))
    style = draw(st.sampled_from(["identical", "permuted", "subset", "free"]))
    operands = []
    for j in range(k):
        n_axis = draw(st.integers(1, 3))
        axis_ids = ["t%d_%s" % (j, x) for x in
                    draw(st.lists(st.sampled_from(["a", "b", "c", "d", "ee",
                                                   "a longer id/10",
                                                   "x" * 23]),
                                  min_size=n_axis, max_size=n_axis,
                                  unique=True))]
        if style == "identical":
            other = list(base_other)
        elif style == "permuted":
            other = list(draw(st.permutations(base_other)))
        elif style == "subset":
            other = draw(st.lists(st.sampled_from(base_other), min_size=1,
                                  max_size=len(base_other), unique=True))
        else:
            other = draw(st.lists(st.sampled_from(UNI), min_size=1,
                                  max_size=5, unique=True))
        if draw(st.integers(0, 7)) == 0:
            # the two axes are separate name spaces: a name may be an ID on
            # both (numeric IDs often are)
            other = [axis_ids[0]] + [x for x in other if x != axis_ids[0]][1:]
        obs, samp = (other, axis_ids) if axis == "sample" else \
            (axis_ids, other)
        md_axis = draw(st.booleans())
        md_other = draw(st.booleans())
        spec = {"obs": obs, "samp": samp,
                "rows": draw(gen.matrices(len(obs), len(samp), values)),
                "type": draw(st.sampled_from([None, "OTU table"])),
                "form": draw(st.sampled_from(gen.FORMS)),
                "history": draw(ops.histories("read")),
                "obs_md": None, "samp_md": None}
        for key, ids, flag in (("obs_md", obs, md_axis if axis !=
                                "sample" else md_other),
                               ("samp_md", samp, md_axis if axis ==
                                "sample" else md_other)):
            if flag:
                # (a value may be empty, zero or false; it is a value)
                spec[key] = [{"src": "t%d" % j, "of": i,
                              "n": draw(st.sampled_from(
                                  [0, "", False, [], 0.0, 3, "x", ["a"]]))}
                             for i in ids]
        operands.append(spec)
    if k >= 2 and draw(st.sampled_from([False] * 7 + [True])):
        # two operands' IDs that differ only by a trailing blank are
        # different IDs (no overlap)
        key_ = "samp" if axis == "sample" else "obs"
        cand = operands[0][key_][0] + " "
        if all(cand not in o_[key_] for o_ in operands):
            operands[-1][key_] = [cand] + operands[-1][key_][1:]
            for mk_ in ("obs_md", "samp_md"):
                pass
    overlap = draw(st.sampled_from([False] * 6 + [True, "same-object"]))
    if overlap is True and k < 2:
        overlap = False
    return {"operands": operands, "axis": axis, "entry": entry,
            "overlap": overlap, "values": values,
            "positional": draw(st.sampled_from([False, False, True]))}


def strategy(tier):
    return cases(tier)


class _Quiet:
    def cls(self, *a, **k):
        pass

    def skip(self, *a, **k):
        pass

    def nt(self, *a, **k):
        pass


def check(case, rec):
    axis = case["axis"]
    specs = [dict(s) for s in case["operands"]]
    if case["overlap"] is True:
        # make the last operand share its first concat-axis ID with the first
        key = "samp" if axis == "sample" else "obs"
        s = specs[-1]
        s[key] = [specs[0][key][0]] + list(s[key][1:])
    tabs = [gen.build(s, rec=rec) for s in specs]
    _check(case, rec, tabs)
    if not case["overlap"] and len(specs[0]["obs"]) % 3 == 0 and \
            not any(t.is_empty() for t in tabs):
        # the same operand objects concatenated again after in-place edits
        # (other-axis IDs renamed so that their sort order changes, values
        # doubled): nothing is remembered from the first call
        inv = "observation" if axis == "sample" else "sample"
        for t in tabs:
            ids = [str(i) for i in t.ids(axis=inv)]
            flip = {i: "%s-%s" % (chr(ord("z") - k % 26), i)
                    for k, i in enumerate(ids)}
            t.update_ids(flip, axis=inv, inplace=True)
            t.transform(lambda v, i, md: v * 2, axis=axis, inplace=True)
        rec.cls("concatenated-again-after-in-place-edits")
        try:
            _check(case, _Quiet(), tabs)
        except Violation as v:
            raise Violation(v.sub, "concatenated again after in-place edits "
                            "(other-axis IDs renamed, values doubled): " +
                            v.msg)


def _check(case, rec, tabs):
    import biom
    from biom.exception import DisjointIDError
    axis = case["axis"]
    inv = "observation" if axis == "sample" else "sample"
    snaps = [observe.snapshot(t) for t in tabs]
    refs = [Ref.from_snapshot(s) for s in snaps]
    rec.cls("entry:" + case["entry"])
    rec.cls("k:%d" % len(tabs))

    def run():
        if case["overlap"] == "same-object":
            # the very same table listed again overlaps with itself
            if case["entry"] == "method_single":
                return tabs[0].concat(tabs[0], axis=axis)
            if case["entry"] == "function":
                return biom.concat(list(tabs) + [tabs[0]], axis=axis)
            return tabs[0].concat(list(tabs[1:]) + [tabs[0]], axis=axis)
        if case["entry"] == "method_single":
            return tabs[0].concat(tabs[1], axis=axis)
        arg = list(tabs) if case["entry"] == "function" else list(tabs[1:])
        held = list(arg)
        if case["entry"] == "function":
            r = biom.concat(arg, axis) if case.get("positional") else \
                biom.concat(arg, axis=axis)
        elif case.get("positional"):
            r = tabs[0].concat(arg, axis)
        else:
            r = tabs[0].concat(arg, axis=axis)
        # the caller's operand list is an input too
        if len(arg) != len(held) or any(a is not b
                                        for a, b in zip(arg, held)):
            raise Violation("operand-list-modified", "concat changed the "
                            "list of operands it was given: %d -> %d entries"
                            % (len(held), len(arg)))
        return r

    if case["overlap"]:
        try:
            if len(snaps[0]["obs"]) % 2:
                # the refusal is concat's own: it does not hinge on how the
                # caller configured the reactions to table errors
                from biom.err import errstate
                rec.cls("overlap-under-errstate-ignore")
                with errstate(all="ignore"):
                    run()
            else:
                run()
        except DisjointIDError:
            rec.cls("overlap-refused:%s" % case["overlap"])
            rec.nt(True)
            return
        raise Violation("overlap-not-refused", "concat of operands sharing "
                        "the %s id %r did not raise DisjointIDError" %
                        (axis, refs[0].ids(axis)[0]))
    r = run()
    got = observe.snapshot(r)
    observe.check_lookups(r, got, "concat result")
    for k, (t, s) in enumerate(zip(tabs, snaps)):
        if observe.snapshot(t) != s:
            raise Violation("operand-modified", "operand %d changed" % k)

    def bad(sub, msg):
        raise Violation(sub, "%s [concat axis=%s entry=%s; operands %r]" %
                        (msg, axis, case["entry"],
                         [x.as_dict() for x in refs]))

    akey, ikey = ("samp", "obs") if axis == "sample" else ("obs", "samp")
    want_axis = [i for rf in refs for i in rf.ids(axis)]
    if got[akey] != want_axis:
        bad("axis-ids", "%s ids %r, expected operand order %r" %
            (axis, got[akey], want_axis))
    want_inv = set(i for rf in refs for i in rf.ids(inv))
    if len(set(got[ikey])) != len(got[ikey]) or set(got[ikey]) != want_inv:
        bad("other-axis-ids", "%s ids %r, expected the union %r" %
            (inv, got[ikey], sorted(want_inv)))
    owner = {}
    for rf in refs:
        for i in rf.ids(axis):
            owner[i] = rf
    for a_pos, a_id in enumerate(got[akey]):
        rf = owner[a_id]
        for i_pos, i_id in enumerate(got[ikey]):
            if i_id in rf.ids(inv):
                want = rf.cell(i_id, a_id) if axis == "sample" else \
                    rf.cell(a_id, i_id)
            else:
                want = 0.0
            have = got["rows"][i_pos][a_pos] if axis == "sample" else \
                got["rows"][a_pos][i_pos]
            if have != want:
                bad("cell", "value for (%s=%r, %s=%r) is %r, expected %r" %
                    (axis, a_id, inv, i_id, have, want))
    gmd = got[akey + "_md"]
    for a_pos, a_id in enumerate(got[akey]):
        rf = owner[a_id]
        md = rf.md(axis)
        want = md[rf.ids(axis).index(a_id)] if md is not None else None
        have = gmd[a_pos] if gmd is not None else None
        if (have or None) != (want or None):
            bad("metadata", "%s id %r carries %r, its own metadata is %r" %
                (axis, a_id, have, want))
    # other-axis metadata stays with its ID: what an ID carries in the
    # result is what some operand holding that ID carries for it
    imd = got[ikey + "_md"]
    for i_pos, i_id in enumerate(got[ikey]):
        have = (imd[i_pos] if imd is not None else None) or None
        cands = []
        for rf in refs:
            if i_id in rf.ids(inv):
                m_ = rf.md(inv)
                cands.append((m_[rf.ids(inv).index(i_id)]
                              if m_ is not None else None) or None)
        if have not in cands:
            bad("other-axis-metadata", "%s id %r carries %r; the operands "
                "holding it carry %r" % (inv, i_id, have, cands))
    tot = sum(x for row in got["rows"] for x in row)
    want_tot = sum(x for rf in refs for row in rf.rows for x in row)
    if tot != want_tot and case.get("values") != "frac":
        # (every cell was compared exactly above; the redundant total is only
        # exact for values whose sums are)
        bad("grand-total", "%r != %r" % (tot, want_tot))

    lacks = any(set(rf.ids(inv)) != want_inv for rf in refs)
    orders = {tuple(i for i in rf.ids(inv)) for rf in refs}
    has_nz = any(x != 0 for row in got["rows"] for x in row)
    differ = len(orders) > 1 and any(
        [x for x in a if x in b] != [x for x in b if x in a]
        for a in orders for b in orders)
    rec.cls("operand-lacks-other-axis-id", lacks)
    rec.cls("different-other-axis-order", differ)
    rec.nt(len(refs) >= 2 and lacks and differ and has_nz)


def _many(k, entry, axis="sample"):
    """k one-vector operands (operand counts past 32 / 64)."""
    ops_ = []
    for j in range(k):
        other = ["U%d" % ((j + q) % 5) for q in range(3)]
        ax = ["t%d" % j]
        obs, samp = (other, ax) if axis == "sample" else (ax, other)
        rows = [[float(j * 3 + q + 1)] for q in range(3)] \
            if axis == "sample" else [[float(j * 3 + q + 1) for q in range(3)]]
        ops_.append({"obs": obs, "samp": samp, "rows": rows, "type": None,
                     "form": "dense", "history": [], "obs_md": None,
                     "samp_md": None})
    return {"operands": ops_, "axis": axis, "entry": entry, "overlap": False,
            "values": "int", "positional": False}


REGRESSIONS = [_many(33, "function"), _many(40, "method_list"),
               _many(65, "function", "observation"),
               _many(97, "function")]
