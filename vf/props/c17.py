"""C17 - all accepted construction inputs agree; malformed input is always
rejected."""
import io
import os
import tempfile
from collections import Counter, OrderedDict

import numpy as np
from hypothesis import strategies as st

from .. import gen, ops, observe
from ..core import Violation
from . import c01

ID = "C17"
LEVEL = "exploration"
RULE = ("(forms) one matrix (float/int/bool, incl. tall, wide, 1x1, all-zero "
        "last row/column) encoded in every accepted constructor form (dense "
        "ndarray, nested lists, triples with explicit zeros, coordinate "
        "dict, list of row arrays / row dicts / sparse rows, scipy "
        "csr/csc/coo/lil/dok/bsr/dia, unsorted indices); (adjacency) record "
        "multisets over small ID alphabets incl. cancelling negatives, "
        "with/without header, as list/str/handle; (uc) H/S/L/C/N records, "
        "comments, blank lines through parse_uc and from-uc with and without "
        "a rep-set map; (malformed) duplicate IDs anywhere on an axis, too "
        "few/many IDs, metadata too short/long or holding non-mappings; "
        "non-trivial = non-square matrix with a zero cell / a repeated "
        "record pair / a defect that is not on the first element; distinct ="
        " canonical hash")
BUDGET = {"quick": {"shards": 16, "examples": 250},
          "thorough": {"shards": 16, "examples": 5000}}
FUZZ_SECONDS = 120   # thorough tier: atheris campaign on the same property
ASSUMPTIONS = ["only row-oriented lists are generated; shape-less forms list "
               "the last corner cell (as an explicit zero if need be)",
               "uc query labels carry exactly one underscore"]
TMP = c01.TMP

ALL_FORMS = ["ndarray", "ndarray_int", "ndarray_bool", "ndarray_f32",
             "ndarray_F", "ndarray_Tview",
             "lists", "triples", "triples_zeros", "triples_min", "dict",
             "dict_zeros", "dict_full_colmajor", "dict_full_reversed",
             "list_arrays", "list_arrays_mixed", "list_dicts", "list_sparse",
             "list_sparse_csc", "list_sparse_coo", "list_sparse_lil",
             "csr", "csc", "coo",
             "lil", "dok", "bsr", "dia", "csr_unsorted", "csc_unsorted",
             "coo_dups_free_shuffled", "triples_npint"]

AID = st.sampled_from(["a", "b", "c", "d", "x1", "x10", "x2", "Ω", "o-1",
                       "s.1", "A b", " a", "a ", " b ", "#c"])


@st.composite
def matrix_case(draw, tier):
    kind = draw(st.sampled_from(["float", "int", "bool"]))
    n, m = draw(st.one_of(gen.shapes(tier),
                          st.tuples(st.integers(3, 6), st.integers(1, 2)),
                          st.tuples(st.integers(1, 2), st.integers(3, 6))))
    n, m = min(n, 8), min(m, 8)
    vk = {"float": draw(st.sampled_from(["wild", "dyadic"])), "int": "int",
          "bool": "small"}[kind]
    rows = draw(gen.matrices(n, m, vk))
    if kind == "bool":
        rows = [[1.0 if x else 0.0 for x in r] for r in rows]
    return {"part": "forms", "dtype": kind, "rows": rows,
            "forms": draw(st.lists(st.sampled_from(ALL_FORMS), min_size=2,
                                   max_size=4, unique=True)),
            "md": draw(st.booleans())}


@st.composite
def adjacency_case(draw, tier):
    recs = draw(st.lists(st.tuples(AID, AID, st.one_of(
        st.integers(-5, 5).map(float), st.sampled_from([0.5, 1e-5, 2.5e10,
                                                        -0.25]))),
        min_size=1, max_size=10))
    return {"part": "adjacency", "records": [list(r) for r in recs],
            "header": draw(st.booleans()),
            "input": draw(st.sampled_from(["list", "list_nl", "str",
                                           "handle"])),
            "cancel": draw(st.booleans())}


@st.composite
def uc_case(draw, tier):
    samples = ["s1", "s2", "Samp3", "s.4"]
    seqs = ["q%d" % i for i in range(6)]
    seeds = ["seedA_1", "seedB_2", "otu3_x", "lib4_1"]
    lines = []
    n = draw(st.integers(0, 12))
    for _ in range(n):
        typ = draw(st.sampled_from(["H", "H", "H", "S", "S", "L", "C", "N",
                                    "#", ""]))
        q = "%s_%s" % (draw(st.sampled_from(samples)),
                       draw(st.sampled_from(seqs)))
        tgt = draw(st.sampled_from(seeds))
        lines.append({"t": typ, "q": q, "tgt": tgt,
                      "desc": draw(st.booleans())})
    return {"part": "uc", "lines": lines,
            "entry": draw(st.sampled_from(["parse_uc", "from_uc",
                                           "from_uc_map", "cli"])),
            "sub": draw(st.sampled_from([False] * 40 + [True]))}


@st.composite
def malformed_case(draw, tier):
    n, m = draw(st.integers(1, 4)), draw(st.integers(1, 4))
    defect = draw(st.sampled_from(
        ["dup_obs", "dup_samp", "few_obs", "many_obs", "few_samp",
         "many_samp", "swapped_counts", "md_short_obs", "md_long_obs", "md_short_samp",
         "md_long_samp", "md_nonmapping_obs", "md_nonmapping_samp"]))
    return {"part": "malformed", "n": n, "m": m, "defect": defect,
            "pos": draw(st.integers(0, 7)), "pos2": draw(st.integers(0, 7)),
            "junk": draw(st.sampled_from([1, 0, "x", "", ["a"], [], 2.5,
                                          True, False, ["k", "v"]])),
            "all_junk": draw(st.booleans()),
            "zero_matrix": draw(st.sampled_from([False, False, True])),
            "form": draw(st.sampled_from(["ndarray", "csr", "lists",
                                          "dict", "list_arrays",
                                          "list_sparse", "list_dicts",
                                          "csc", "coo", "ndarray_int", "dok",
                                          "lil", "bsr"])),
            "rows": None}


def strategy(tier):
    return st.one_of(matrix_case(tier), matrix_case(tier),
                     adjacency_case(tier), uc_case(tier),
                     malformed_case(tier))


# ---------------------------------------------------------------------------

def encode(rows, form):
    import scipy.sparse as sp
    a = np.asarray(rows, dtype=float)
    n, m = a.shape
    if form == "ndarray":
        return a.copy(), {}
    if form == "ndarray_F":
        return np.asfortranarray(a), {}
    if form == "ndarray_Tview":
        # the transpose of a row-major array holding the transposed content
        return np.ascontiguousarray(a.T).T, {}
    if form == "ndarray_int":
        return a.astype(np.int64), {}
    if form == "ndarray_bool":
        return a.astype(bool), {}
    if form == "ndarray_f32":
        return a.astype(np.float32), {}
    if form == "lists":
        return [list(r) for r in a.tolist()], {"input_is_dense": True}
    if form in ("triples", "triples_zeros"):
        t = [[i, j, a[i, j]] for i in range(n) for j in range(m)
             if a[i, j] != 0 or (form == "triples_zeros" and (i + j) % 2)]
        if not any(x[0] == n - 1 and x[1] == m - 1 for x in t):
            t.append([n - 1, m - 1, a[n - 1, m - 1]])
        return t, {}
    if form == "triples_npint":
        # one triple per row at most, coordinates as numpy integers (what
        # np.nonzero / np.argwhere hand out); as many triples as rows when
        # every row has a non-zero cell
        t = []
        for i in range(n):
            nz = [j for j in range(m) if a[i, j] != 0]
            if nz:
                t.append([np.int64(i), np.int64(nz[0]), a[i, nz[0]]])
                for j in nz[1:]:
                    if len(t) < n:
                        t.append([np.int64(i), np.int64(j), a[i, j]])
        full = [[i, j, a[i, j]] for i in range(n) for j in range(m)
                if a[i, j] != 0]
        if len(t) != len(full) or not t:
            t = [[np.int64(x[0]), np.int64(x[1]), x[2]] for x in full] or \
                [[np.int64(0), np.int64(0), 0.0]]
        return t, {}
    if form == "triples_min":
        # only the non-zero cells, in row order (the shape comes from the
        # ID lists; trailing all-zero rows / columns have no triple)
        t = [[i, j, a[i, j]] for i in range(n) for j in range(m)
             if a[i, j] != 0]
        if not t:
            t = [[0, 0, 0.0]]
        return t, {}
    if form in ("dict", "dict_zeros"):
        d = {(i, j): a[i, j] for i in range(n) for j in range(m)
             if a[i, j] != 0 or (form == "dict_zeros" and (i + j) % 2 == 0)}
        d[(n - 1, m - 1)] = a[n - 1, m - 1]
        return d, {}
    if form in ("dict_full_colmajor", "dict_full_reversed"):
        # every cell listed; a mapping has no order to speak of
        keys = [(i, j) for j in range(m) for i in range(n)]
        if form == "dict_full_reversed":
            keys = [(i, j) for i in range(n) for j in range(m)][::-1]
        return {k_: a[k_] for k_ in keys}, {}
    if form == "list_arrays":
        return [a[i].copy() for i in range(n)], {}
    if form == "list_arrays_mixed":
        # every row array in the narrowest dtype that holds it exactly
        out = []
        for i in range(n):
            r = a[i]
            if np.all((r == 0) | (r == 1)):
                out.append(r.astype(bool))
            elif np.all(r == np.floor(r)) and np.all(np.abs(r) < 2 ** 31):
                out.append(r.astype(np.int32))
            else:
                out.append(r.copy())
        return out, {}
    if form == "list_dicts":
        out = []
        for i in range(n):
            d = {(0, j): a[i, j] for j in range(m) if a[i, j] != 0}
            if i == 0:
                d[(0, m - 1)] = a[0, m - 1]
            out.append(d)
        return out, {}
    if form == "list_sparse":
        return [sp.csr_matrix(a[i:i + 1, :]) for i in range(n)], {}
    if form in ("list_sparse_csc", "list_sparse_coo", "list_sparse_lil"):
        # one 1 x m sparse row per observation, in another sparse layout
        mk = getattr(sp, form[-3:] + "_matrix")
        return [mk(a[i:i + 1, :]) for i in range(n)], {}
    if form in ("csr", "csc", "coo", "lil", "dok", "bsr", "dia"):
        return getattr(sp, form + "_matrix")(a), {}
    if form == "csr_unsorted":
        return gen.encode(rows, "csr_unsorted")
    if form == "csc_unsorted":
        c = sp.csc_matrix(a)
        ind, dat, ptr = c.indices.copy(), c.data.copy(), c.indptr
        for j in range(m):
            s, e = ptr[j], ptr[j + 1]
            ind[s:e] = ind[s:e][::-1]
            dat[s:e] = dat[s:e][::-1]
        return sp.csc_matrix((dat, ind, ptr.copy()), shape=(n, m)), {}
    if form == "coo_dups_free_shuffled":
        r, c = np.nonzero(a)
        order = np.argsort(-(r * 7 + c * 3) % 11, kind="stable")
        return sp.coo_matrix((a[r, c][order], (r[order], c[order])),
                             shape=(n, m)), {}
    raise ValueError(form)


def reset_profile():
    from biom.err import seterr
    seterr(all="raise")
    seterr(empty="ignore")


def check(case, rec):
    reset_profile()
    rec.cls("part:" + case["part"])
    return {"forms": check_forms, "adjacency": check_adjacency,
            "uc": check_uc, "malformed": check_malformed}[case["part"]](
                case, rec)


def check_forms(case, rec):
    from biom import Table
    rows = case["rows"]
    a = np.asarray(rows, dtype=float)
    if case["dtype"] == "int":
        a = np.round(a)
    n, m = a.shape
    obs = ["o%d" % i for i in range(n)]
    samp = ["s%d" % j for j in range(m)]
    md = [{"k": i} for i in obs] if case["md"] else None
    tabs = []
    for form in case["forms"]:
        if form == "ndarray_bool" and case["dtype"] != "bool":
            continue
        if form in ("ndarray_int",) and case["dtype"] == "float":
            continue
        if form == "ndarray_f32" and not np.array_equal(
                a.astype(np.float32).astype(float), a):
            continue
        rec.cls("form:" + form)
        data, kw = encode(a.tolist(), form)
        t = Table(data, list(obs), list(samp), md, None, **kw)
        snap = observe.snapshot(t)
        if snap["obs"] != obs or snap["samp"] != samp or \
                snap["rows"] != a.tolist():
            raise Violation("form-content", "form %s holds %r, described "
                            "matrix %r" % (form, snap["rows"], a.tolist()))
        tabs.append((form, t))
        if n > 1 and form in ("csr", "csc", "coo", "csr_unsorted", "ndarray",
                              "dict", "lists", "triples", "list_arrays"):
            # the caller's input object stays the caller's: using it for a
            # second table after the first one was edited in place must
            # still give the described matrix
            t.filter(list(obs[1:]), axis="observation", inplace=True)
            t.transform(lambda v, i, md_: v * 0, inplace=True)
            t2 = Table(data, list(obs), list(samp), md, None, **kw)
            s2 = observe.snapshot(t2)
            if s2["rows"] != a.tolist() or s2["obs"] != obs:
                raise Violation("input-object-aliased", "a second table "
                                "built from the same %s input object after "
                                "the first was edited in place holds %r, "
                                "described matrix %r" %
                                (form, s2["rows"], a.tolist()))
            tabs[-1] = (form, t2)
    for (f1, t1), (f2, t2) in zip(tabs, tabs[1:]):
        if not (t1 == t2) or not (t2 == t1) or (t1 != t2):
            raise Violation("forms-unequal", "tables built from %s and %s "
                            "compare unequal: %s" %
                            (f1, f2, t1.descriptive_equality(t2)))
    rec.nt(n != m and bool((a == 0).any()) and bool((a != 0).any()) and
           len(tabs) >= 2)


def fmt_value(v):
    return repr(float(v)) if float(v) != int(v) or abs(v) > 1e15 \
        else str(int(v))


def check_adjacency(case, rec):
    from biom import Table
    recs = [tuple(r) for r in case["records"]]
    if case["cancel"] and recs:
        o, s, v = recs[0]
        recs.append((o, s, -v))
    lines = ["%s\t%s\t%s" % (o, s, fmt_value(v)) for o, s, v in recs]
    if case["header"]:
        lines.insert(0, "#OTU ID\tSampleID\tvalue")
    how = case["input"]
    rec.cls("adj-input:" + how)
    if how == "list":
        arg = list(lines)
    elif how == "list_nl":
        arg = [ln + "\n" for ln in lines]
    elif how == "str":
        arg = "\n".join(lines)
    else:
        arg = io.StringIO("\n".join(lines) + "\n")
    held = list(arg) if isinstance(arg, list) else None
    t = Table.from_adjacency(arg)
    if held is not None and arg != held:
        raise Violation("input-modified", "from_adjacency changed the list "
                        "of lines it was given: %r -> %r" % (held, arg))
    snap = observe.snapshot(t)
    cells = Counter()
    for o, s, v in recs:
        cells[(o, s)] += v
    obs = sorted({o for o, _, _ in recs})
    samp = sorted({s for _, s, _ in recs})
    want = [[float(cells.get((o, s), 0.0)) for s in samp] for o in obs]
    if snap["obs"] != obs or snap["samp"] != samp:
        raise Violation("adjacency-ids", "ids %r / %r, expected %r / %r "
                        "(lines %r)" % (snap["obs"], snap["samp"], obs, samp,
                                        lines))
    if snap["rows"] != want:
        raise Violation("adjacency-values", "matrix %r, expected sums %r "
                        "(lines %r)" % (snap["rows"], want, lines))
    pairs = Counter((o, s) for o, s, _ in recs)
    rec.nt(any(c > 1 for c in pairs.values()))


def uc_text(case):
    out = []
    for ln in case["lines"]:
        t = ln["t"]
        if t == "":
            out.append("")
            continue
        if t == "#":
            out.append("# a comment\twith\ttabs %s" % ln["q"])
            continue
        q = ln["q"] + (" some description" if ln["desc"] else "")
        tgt = "*" if t in ("S", "L", "N", "C") else ln["tgt"]
        if t == "L":
            q = ln["tgt"]
        out.append("\t".join([t, "0", "100", "99.0", "+", "0", "0", "100M",
                              q, tgt]))
    return "\n".join(out) + "\n"


def uc_model(case):
    obs, samp, counts = [], [], Counter()
    for ln in case["lines"]:
        t = ln["t"]
        if t not in ("H", "S", "L"):
            continue
        if t == "L":
            o = ln["tgt"]
        elif t == "S":
            o = ln["q"]
        else:
            o = ln["tgt"]
        if o not in obs:
            obs.append(o)
        if t in ("H", "S"):
            s = ln["q"].split("_")[0]
            if s not in samp:
                samp.append(s)
            counts[(o, s)] += 1
    rows = [[float(counts.get((o, s), 0)) for s in samp] for o in obs]
    return obs, samp, rows


def check_uc(case, rec):
    from biom.parse import parse_uc
    from ..cli import command
    from_uc = command("from-uc")
    try:
        from biom.cli.uc_processor import _from_uc
    except ImportError:       # helper renamed: the command route remains
        _from_uc = None
    from biom import load_table
    text = uc_text(case)
    obs, samp, rows = uc_model(case)
    entry = case["entry"]
    if _from_uc is None and entry in ("from_uc", "from_uc_map"):
        entry = "cli"
    rec.cls("uc-entry:" + entry)
    rename = None
    if entry in ("from_uc_map", "cli"):
        # (an OTU label is the first blank-separated field of the header,
        # whatever punctuation it holds)
        styles = ["OTU_%d", "denovo%d;size=12;", "d%d;g__Bacillus;s__x",
                  "k__A|%d", "otu:%d,a", "%d", "OTU_%d", "#%d=", "é%d>x"]
        rename = {o: styles[(len(text) + k * (len(obs) % 3)) % len(styles)]
                  % k for k, o in enumerate(obs)}
        fasta = "".join(">%s %s extra\nACGT\n" % (v, k)
                        for k, v in rename.items()) + \
            ">OTU_unused zz_9\nAC\n"
    if entry == "parse_uc":
        t = parse_uc(io.StringIO(text))
    elif entry == "from_uc":
        t = _from_uc(io.StringIO(text))
    elif entry == "from_uc_map":
        t = _from_uc(io.StringIO(text), io.StringIO(fasta))
    else:
        if not obs or not samp:
            rec.skip("uc without hits cannot be written as HDF5 and loaded")
            return
        with tempfile.TemporaryDirectory(prefix="vf-c17-", dir=TMP) as d:
            p, fp, out = (os.path.join(d, x) for x in ("in.uc", "rep.fna",
                                                       "out.biom"))
            open(p, "w").write(text)
            open(fp, "w").write(fasta)
            from ..cli import invoke
            rc, out_ = invoke(from_uc, "from-uc",
                              ["-i", p, "-o", out, "--rep-set-fp", fp],
                              case.get("sub", False))
            if rc != 0:
                raise Violation("from-uc-exit", "exit %r: %s" %
                                (rc, out_[-300:]))
            t = load_table(out)
    snap = observe.snapshot(t)
    want_obs = [rename[o] for o in obs] if rename else obs
    if snap["obs"] != want_obs or snap["samp"] != samp:
        raise Violation("uc-ids", "ids %r / %r, expected %r / %r for %r" %
                        (snap["obs"], snap["samp"], want_obs, samp, text))
    if obs and samp and snap["rows"] != rows:
        raise Violation("uc-counts", "counts %r, expected %r for %r" %
                        (snap["rows"], rows, text))
    rec.nt(any(v > 1 for row in rows for v in row))


def check_malformed(case, rec):
    from biom import Table
    from biom.exception import TableException
    n, m, defect = case["n"], case["m"], case["defect"]
    a = np.arange(1, n * m + 1, dtype=float).reshape(n, m)
    if case.get("zero_matrix"):
        a = a * 0.0       # a table of zeros is still a non-empty table
        rec.cls("malformed:all-zero-matrix")
    obs = ["o%d" % i for i in range(n)]
    samp = ["s%d" % j for j in range(m)]
    omd = smd = None
    rec.cls("defect:" + defect)
    late = False
    if defect.startswith("dup"):
        ids = obs if defect == "dup_obs" else samp
        if len(ids) < 2:
            rec.skip("axis too short for a duplicate")
            return
        i = case["pos"] % len(ids)
        j = (i + 1 + case["pos2"] % (len(ids) - 1)) % len(ids)
        ids[j] = ids[i]
        late = min(i, j) > 0
    elif defect in ("few_obs", "few_samp"):
        ids = obs if defect == "few_obs" else samp
        if len(ids) < 2:
            rec.skip("cannot drop an ID and stay non-empty")
            return
        ids.pop(case["pos"] % len(ids))
    elif defect == "swapped_counts":
        # as many IDs as cells, but the two counts the wrong way round
        if n == m:
            rec.skip("square matrix: counts cannot be swapped")
            return
        obs, samp = (["o%d" % i for i in range(m)],
                     ["s%d" % j for j in range(n)])
    elif defect in ("many_obs", "many_samp"):
        ids = obs if defect == "many_obs" else samp
        ids.insert(case["pos"] % (len(ids) + 1), "extra")
    elif defect.startswith("md_short") or defect.startswith("md_long"):
        ids = obs if defect.endswith("obs") else samp
        md = [{"k": i} for i in ids]
        if "short" in defect:
            if len(md) < 2:
                rec.skip("metadata cannot be shortened and stay non-empty")
                return
            md.pop(case["pos"] % len(md))
        else:
            md.insert(case["pos"] % (len(md) + 1), {"k": "extra"})
        if defect.endswith("obs"):
            omd = md
        else:
            smd = md
    else:
        ids = obs if defect.endswith("obs") else samp
        if case["all_junk"]:
            md = [case["junk"] for _ in ids]
        else:
            # (the well-formed records may be any kind of mapping, e.g.
            # records taken from another table's metadata())
            from collections import defaultdict, OrderedDict
            mk_ = [dict, lambda d_: defaultdict(lambda: None, d_),
                   OrderedDict][(case["pos"] // max(len(ids), 1)) % 3]
            md = [mk_({"k": i}) for i in ids]
            k = case["pos"] % len(ids)
            md[k] = case["junk"]
            late = k > 0
        if defect.endswith("obs"):
            omd = md
        else:
            smd = md
    form = case["form"]
    if defect.startswith(("few", "many", "swapped")) and \
            form in ("lists", "dict"):
        # nested lists / coordinate dicts take their shape from the ID
        # counts, so "ID counts disagree with the matrix shape" is only
        # expressible with inputs that carry a shape of their own
        form = "csr" if form == "dict" else "ndarray"
    rec.cls("malformed-form:" + form)
    data, kw = encode(a.tolist(), form)
    try:
        t = Table(data, obs, samp, omd, smd, **kw)
    except TableException:
        rec.nt(late or defect.startswith(("few", "many", "md_short",
                                          "md_long", "swapped")))
        return
    except Exception as e:
        raise Violation("malformed-wrong-exception", "%s raised %s (%s), "
                        "not the library's TableException; ids %r/%r md "
                        "%r/%r" % (defect, type(e).__name__, e, obs, samp,
                                   omd, smd))
    raise Violation("malformed-accepted", "%s produced a table: ids %r / %r,"
                    " metadata %r / %r, data %dx%d -> %r" %
                    (defect, obs, samp, omd, smd, n, m, repr(t)))


# ---------------------------------------------------------------------------
# exhaustive: every form x small shapes x zero patterns x dtype

ENUM_SHAPES = [(1, 1), (1, 2), (2, 1), (1, 3), (3, 1), (2, 2), (2, 3),
               (3, 2), (1, 4), (4, 1), (3, 3)]


def ENUM_NAME(tier):
    return ("exhaustive: every constructor form x shapes %r x 4 zero "
            "patterns x {float,int,bool}" % (ENUM_SHAPES,))


def enum_chunks(tier):
    return list(range(len(ENUM_SHAPES)))


def enum_chunk(tier, chunk):
    n, m = ENUM_SHAPES[chunk]
    for pattern in range(4):
        rows = []
        for i in range(n):
            rows.append([])
            for j in range(m):
                z = (pattern == 1 and (i + j) % 2 == 0) or \
                    (pattern == 2 and (i == n - 1 or j == m - 1)) or \
                    (pattern == 3)
                rows[-1].append(0.0 if z else float(i * m + j + 1) + 0.5)
        for dtype in ("float", "int", "bool"):
            r2 = rows
            if dtype == "bool":
                r2 = [[1.0 if x else 0.0 for x in r] for r in rows]
            for md in (False, True):
                yield {"part": "forms", "dtype": dtype, "rows": r2,
                       "forms": list(ALL_FORMS), "md": md}


REGRESSIONS = [
    {"part": "uc", "entry": "cli", "sub": True, "lines": [
        {"t": "S", "q": "s1_q0", "tgt": "seedA_1", "desc": False},
        {"t": "H", "q": "s2_q1", "tgt": "s1_q0", "desc": True},
        {"t": "H", "q": "s1_q2", "tgt": "s1_q0", "desc": False},
        {"t": "L", "q": "s1_q3", "tgt": "lib4_1", "desc": False},
        {"t": "#", "q": "s1_q3", "tgt": "lib4_1", "desc": False},
        {"t": "S", "q": "Samp3_q4", "tgt": "otu3_x", "desc": False}]},
]


def _tall(n):
    """More than 1024 rows (block-wise converters)."""
    rows = [[float((i * 7 + j * 3) % 5) for j in range(2)] for i in range(n)]
    return {"part": "forms", "dtype": "float", "rows": rows,
            "forms": ["ndarray", "csr", "lists", "triples_min",
                      "list_arrays", "list_sparse", "dict"], "md": False}


REGRESSIONS += [_tall(1100), _tall(2050)]
# as many triples as rows, three columns, numpy-integer coordinates
REGRESSIONS += [{"part": "forms", "dtype": "float",
                 "rows": [[0.0, 2.0, 0.0], [5.0, 0.0, 0.0]],
                 "forms": ["ndarray", "triples_npint", "triples_min"],
                 "md": False},
                {"part": "forms", "dtype": "float",
                 "rows": [[0.0, 0.0, 7.0], [0.0, 1.5, 0.0], [2.0, 0.0, 0.0]],
                 "forms": ["csr", "triples_npint"], "md": False}]
