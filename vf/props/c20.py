"""C20 - the error-handling profile is honoured and scoped."""
import contextlib
import io
import itertools
import os
import sys
import tempfile
import warnings

import numpy as np
from hypothesis import strategies as st

from ..core import Violation

ID = "C20"
LEVEL = "exploration"
RULE = ("programs over seterr(**kw) (valid, all=, unknown kind, unknown "
        "reaction, mixed valid+invalid), seterrcall(kind, f) (known/unknown "
        "kind), errstate(**kw) blocks nested to depth 3 left normally or by "
        "exception, and probes that build an input triggering exactly one "
        "error kind through a real call site; oracle = reference model of a "
        "scoped configuration stack + callback table, compared with "
        "geterr()/geterrcall() after every statement, and the observed "
        "reaction of every probe (exception, warning, line on fd 1, "
        "callback with the offending table, nothing) compared with the "
        "model's current reaction; non-trivial = program with a nested block "
        "left by exception or a refused seterr mixing valid and invalid "
        "entries, containing a probe; distinct = canonical hash.  Exhaustive "
        "sub-runs: kinds x reactions x {trigger, non-trigger} x call sites, "
        "and all programs up to a bounded size over a finite statement "
        "alphabet")
BUDGET = {"quick": {"shards": 16, "examples": 150},
          "thorough": {"shards": 16, "examples": 4000}}
ASSUMPTIONS = ["the process-global profile is reset at the top of every case",
               "'print' is observed at file-descriptor level (biom.err binds "
               "sys.stdout at import) and through sys.stdout"]

KINDS = ["empty", "obssize", "sampsize", "obsdup", "sampdup", "obsmdsize",
         "sampmdsize"]
REACTIONS = ["raise", "ignore", "warn", "print", "call"]
DEFAULT = {k: "raise" for k in KINDS}
DEFAULT["empty"] = "ignore"
SITES = {"empty": ["ctor", "filter", "copy", "transform_copy", "filter_noop"],
         "obsdup": ["ctor", "update_ids", "copy", "transform_copy", "load"],
         "sampdup": ["ctor", "update_ids", "copy", "load"],
         "obssize": ["ctor", "ctor_zero", "ctor_rows", "ctor_rowdicts",
                     "ctor_sparse", "ctor_md"],
         "sampsize": ["ctor", "ctor_zero", "ctor_rows", "ctor_rowdicts",
                      "ctor_sparse", "ctor_md"],
         "obsmdsize": ["ctor", "ctor_long", "copy"],
         "sampmdsize": ["ctor", "ctor_long", "copy"]}
MESSAGES = {"empty": "Empty table!", "obssize": "observation IDs differs",
            "sampsize": "sample IDs differs", "obsdup": "Duplicate observation",
            "sampdup": "Duplicate sample", "obsmdsize": "observation metadata",
            "sampmdsize": "sample metadata"}

_INITIAL_CB = {}


def reset_profile():
    from biom.err import seterr, seterrcall, geterrcall
    seterr(all="raise")
    seterr(empty="ignore")
    if not _INITIAL_CB:
        for k in KINDS:
            _INITIAL_CB[k] = geterrcall(k)
    for k in KINDS:
        seterrcall(k, _INITIAL_CB[k])


# ---------------------------------------------------------------------------
# triggers: inputs for which exactly one kind is wrong

def trigger(kind, site):
    """Returns a thunk performing the offending construction/operation and a
    predicate recognising the offending table."""
    from biom import Table
    a = np.array([[1.0, 2.0], [3.0, 4.0]])
    if site in ("copy", "transform_copy", "filter_noop"):
        # an operation that constructs a new table from one that already
        # offends (it was built while the kind was ignored)
        from biom.err import seterr
        old = seterr(**{kind: "ignore"})
        try:
            base = trigger(kind, "ctor")()
        finally:
            seterr(**old)
        if site == "copy":
            return lambda: base.copy()
        if site == "filter_noop":
            # an in-place filter that keeps everything of an already
            # offending (empty) table still checks it
            return lambda: base.filter(lambda v, i, md: True, inplace=True)
        return lambda: base.pa(inplace=False)
    if kind in ("obsdup", "sampdup") and site == "load":
        # a JSON document naming an ID twice, read with load_table
        import json as _json
        rows = [{"id": i, "metadata": None} for i in
                (["a", "a"] if kind == "obsdup" else ["o1", "o2"])]
        cols = [{"id": i, "metadata": None} for i in
                (["a", "a"] if kind == "sampdup" else ["s1", "s2"])]
        doc = {"id": None, "format": "Biological Observation Matrix 1.0.0",
               "format_url": "http://biom-format.org",
               "type": "OTU table", "generated_by": "vf",
               "date": "2020-01-02T03:04:05", "matrix_type": "sparse",
               "matrix_element_type": "float", "shape": [2, 2],
               "data": [[0, 0, 1.0], [1, 1, 2.0]], "rows": rows,
               "columns": cols}
        fd, path = tempfile.mkstemp(prefix="vf-c20-", suffix=".biom",
                                    dir="/dev/shm" if os.path.isdir(
                                        "/dev/shm") else None)
        with os.fdopen(fd, "w") as f:
            _json.dump(doc, f)

        def load():
            from biom import load_table
            try:
                return load_table(path)
            finally:
                if os.path.exists(path):
                    os.remove(path)
        return load
    if kind == "obsdup":
        if site == "update_ids":
            t = Table(a, ["o1", "o2"], ["s1", "s2"])
            return (lambda: t.update_ids({"o1": "x", "o2": "x"},
                                         axis="observation", inplace=False))
        return lambda: Table(a, ["a", "a"], ["s1", "s2"])
    if kind == "sampdup":
        if site == "update_ids":
            t = Table(a, ["o1", "o2"], ["s1", "s2"])
            return (lambda: t.update_ids({"s1": "x", "s2": "x"},
                                         axis="sample", inplace=False))
        return lambda: Table(a, ["o1", "o2"], ["a", "a"])
    if kind in ("obssize", "sampsize") and site in ("ctor_rows",
                                                    "ctor_rowdicts",
                                                    "ctor_sparse"):
        # other input forms that carry a shape of their own
        import scipy.sparse as sp
        data = {"ctor_rows": [a[0].copy(), a[1].copy()],
                "ctor_rowdicts": [{(0, 0): 1.0, (0, 1): 2.0},
                                  {(0, 0): 3.0, (0, 1): 4.0}],
                "ctor_sparse": sp.csc_matrix(a)}[site]
        o, s_ = (["o1", "o2", "o3"], ["s1", "s2"]) if kind == "obssize" \
            else (["o1", "o2"], ["s1", "s2", "s3"])
        return lambda: Table(data, o, s_)
    if kind in ("obssize", "sampsize") and site == "ctor_md":
        # too many IDs, with metadata that fits the *matrix*: still only the
        # ID count is wrong
        md = [{"k": 1}, {"k": 2}]
        if kind == "obssize":
            return lambda: Table(a, ["o1", "o2", "o3"], ["s1", "s2"], md,
                                 None)
        return lambda: Table(a, ["o1", "o2"], ["s1", "s2", "s3"], None, md)
    if kind == "obssize":
        if site == "ctor_zero":     # a matrix without rows, one obs ID
            return lambda: Table(np.zeros((0, 2)), ["o1"], ["s1", "s2"])
        return lambda: Table(a, ["o1", "o2", "o3"], ["s1", "s2"])
    if kind == "sampsize":
        if site == "ctor_zero":
            return lambda: Table(np.zeros((2, 0)), ["o1", "o2"], ["s1"])
        return lambda: Table(a, ["o1", "o2"], ["s1", "s2", "s3"])
    if kind == "obsmdsize":
        md = [{"k": 1}] if site == "ctor" else [{"k": 1}, {"k": 2}, {"k": 3}]
        return lambda: Table(a, ["o1", "o2"], ["s1", "s2"], md, None)
    if kind == "sampmdsize":
        md = [{"k": 1}] if site == "ctor" else [{"k": 1}, {"k": 2}, {"k": 3}]
        return lambda: Table(a, ["o1", "o2"], ["s1", "s2"], None, md)
    if kind == "empty":
        if site == "filter":
            t = Table(a, ["o1", "o2"], ["s1", "s2"])
            return lambda: t.filter(lambda v, i, md: False, inplace=False)
        return lambda: Table([], [], [])
    raise ValueError(kind)


def valid_input():
    from biom import Table
    a = np.array([[1.0, 0.0], [3.0, 4.0]])
    return lambda: Table(a, ["o1", "o2"], ["s1", "s2"], [{"k": 1}, {"k": 2}],
                         None)


@contextlib.contextmanager
def capture_stdout():
    """Capture what is written to fd 1 and to sys.stdout."""
    out = {"text": ""}
    import biom.err as be
    streams = [s for s in (sys.__stdout__, getattr(be, "stdout", None),
                           sys.stdout) if s is not None]
    for s in streams:
        try:
            s.flush()
        except Exception:
            pass
    saved = os.dup(1)
    tmp = tempfile.TemporaryFile(mode="w+b")
    os.dup2(tmp.fileno(), 1)
    py = io.StringIO()
    old = sys.stdout
    sys.stdout = py
    try:
        yield out
    finally:
        sys.stdout = old
        for s in streams:
            try:
                s.flush()
            except Exception:
                pass
        os.dup2(saved, 1)
        os.close(saved)
        tmp.seek(0)
        out["text"] = tmp.read().decode("utf8", "replace") + py.getvalue()
        tmp.close()


CALLS = []


def make_cb(tag):
    def cb(item):
        CALLS.append((tag, item))
        return None
    cb.tag = tag
    return cb


class CbBoom(Exception):
    """Raised by the user callback 'cbraise' (a handler may fail)."""


def make_raising_cb(tag):
    def cb(item):
        CALLS.append((tag, item))
        raise CbBoom(tag)
    cb.tag = tag
    return cb


CBS = {"cb1": make_cb("cb1"), "cb2": make_cb("cb2"),
       "cbraise": make_raising_cb("cbraise")}


def observe_reaction(thunk, wfilter="always"):
    """Run thunk; return (set of observed reactions, details).  With
    wfilter="error" warnings are turned into exceptions (python -W error),
    so a 'warn' reaction leaves the call site as an exception."""
    from biom.exception import TableException
    del CALLS[:]
    seen = set()
    detail = {}
    with warnings.catch_warnings(record=True) as w:
        warnings.simplefilter(wfilter)
        with capture_stdout() as cap:
            try:
                detail["result"] = thunk()
            except TableException as e:
                seen.add("raise")
                detail["exc"] = str(e)
            except CbBoom:
                detail["cb_raised"] = True
            except Warning as e:
                if wfilter != "error":
                    raise
                seen.add("warn")
                detail["warn"] = [str(e)]
    if w:
        seen.add("warn")
        detail["warn"] = [str(x.message) for x in w]
    if cap["text"].strip():
        seen.add("print")
        detail["print"] = cap["text"]
    if CALLS:
        seen.add("call")
        detail["calls"] = [(tag, type(item).__name__) for tag, item in CALLS]
        detail["call_items"] = list(CALLS)
    return seen, detail


# ---------------------------------------------------------------------------
# statements

def flat_statements():
    """Finite alphabet of simple statements (plain data)."""
    return [
        {"s": "seterr", "kw": {"obsdup": "ignore"}},
        {"s": "seterr", "kw": {"empty": "raise", "sampsize": "warn"}},
        {"s": "seterr", "kw": {"all": "print"}},
        {"s": "seterr", "kw": {"obsdup": "call"}},
        {"s": "seterr", "kw": {"bogus": "raise"}},
        {"s": "seterr", "kw": {"obsdup": "bogus"}},
        {"s": "seterr", "kw": {"empty": "warn", "bogus": "ignore"}},
        {"s": "seterr", "kw": {"all": "bogus"}},
        {"s": "seterr", "kw": {"empty": "<callable>", "obssize": "bogus"}},
        {"s": "seterrcall", "kind": "obsdup", "cb": "cb1"},
        {"s": "seterrcall", "kind": "bogus", "cb": "cb2"},
        {"s": "probe", "kind": "obsdup", "site": "ctor"},
        {"s": "probe", "kind": "empty", "site": "filter"},
        {"s": "probe", "kind": "sampsize", "site": "ctor"},
        {"s": "probe", "kind": "obsdup", "site": "copy"},
        # handlers that fail: a callback that raises, a warning turned into
        # an error; later errors must still be reported
        {"s": "seterrcall", "kind": "obsdup", "cb": "cbraise"},
        {"s": "probe", "kind": "sampsize", "site": "ctor",
         "wfilter": "error"},
        {"s": "cbswap", "kind": "obsdup", "first": "cb1", "second": "cb2",
         "site": 0},
        {"s": "partition_loop", "remove_empty": True,
         "body": [{"s": "probe", "kind": "empty", "site": "ctor"}]},
    ]


BLOCK_HEADS = [{"obsdup": "warn"}, {"all": "ignore"},
               {"empty": "raise", "bogus": "warn"}, {"sampsize": "print"},
               {}, {"obsmdsize": "warn", "sampmdsize": None}]

KW = st.one_of(
    st.dictionaries(st.sampled_from(KINDS), st.sampled_from(REACTIONS),
                    max_size=3),
    st.builds(lambda r: {"all": r}, st.sampled_from(REACTIONS)),
    st.dictionaries(st.sampled_from(KINDS + ["bogus", "obs_dup"]),
                    st.sampled_from(REACTIONS + ["bogus", "Raise",
                                                 "<callable>", None, "",
                                                 0, True]),
                    min_size=1, max_size=3),
)


def statements(depth):
    simple = st.one_of(
        st.builds(lambda kw: {"s": "seterr", "kw": kw}, KW),
        st.builds(lambda k, c: {"s": "seterrcall", "kind": k, "cb": c},
                  st.sampled_from(KINDS + ["bogus"]),
                  st.sampled_from(["cb1", "cb2", "default", "cbraise"])),
        st.builds(lambda k, i, w: {"s": "probe", "kind": k, "site": i,
                                   "wfilter": w},
                  st.sampled_from(KINDS), st.integers(0, 5),
                  st.sampled_from(["always", "always", "error"])),
        st.builds(lambda k, i: {"s": "probe", "kind": k, "site": i},
                  st.sampled_from(KINDS), st.integers(0, 5)),
        # the callback is replaced between two firings of the same kind
        st.builds(lambda k, a, b, i: {"s": "cbswap", "kind": k, "first": a,
                                      "second": b, "site": i},
                  st.sampled_from(KINDS), st.sampled_from(["cb1", "cb2"]),
                  st.sampled_from(["cb2", "cb1", "cbraise", "default"]),
                  st.integers(0, 5)),
        st.just({"s": "probe_valid"}),
    )
    if depth <= 0:
        return simple
    loop = st.builds(
        lambda re_, body: {"s": "partition_loop", "remove_empty": re_,
                           "body": body},
        st.booleans(), st.lists(simple, max_size=2))
    block = st.builds(
        lambda kw, body, exc: {"s": "errstate", "kw": kw, "body": body,
                               "raise": exc},
        KW, st.lists(statements(depth - 1), max_size=4), st.booleans())
    return st.one_of(simple, simple, simple, block, block, loop)


def strategy(tier):
    return st.builds(lambda p: {"program": p},
                     st.lists(statements(3), min_size=1,
                              max_size=8 if tier == "quick" else 12))


# ---------------------------------------------------------------------------
# reference model + interpreter

class Boom(Exception):
    pass


class Model:
    def __init__(self):
        self.state = dict(DEFAULT)
        self.cb = {k: "default" for k in KINDS}

    def apply_kw(self, kw):
        """Returns the new state, or None when the call must be refused."""
        if "all" in kw:
            if kw["all"] not in REACTIONS:
                return None
            return {k: kw["all"] for k in KINDS}
        new = dict(self.state)
        for k, v in kw.items():
            if k not in KINDS or v not in REACTIONS:
                return None
            new[k] = v
        return new


def _real_kw(kw):
    """A reaction written "<callable>" in a case stands for a function
    object (a callable is not a reaction: such a call is refused)."""
    return {k: (CBS["cb2"] if v == "<callable>" else v)
            for k, v in kw.items()}


def check_profile(model, where):
    from biom.err import geterr, geterrcall
    got = geterr()
    if got != model.state:
        raise Violation("profile-differs", "%s: geterr() = %r, the scoped "
                        "configuration model says %r" % (where, got,
                                                         model.state))
    # what geterr() returns is a report, not the profile: editing it
    # configures nothing
    got["obsdup"] = "ignore" if got.get("obsdup") != "ignore" else "raise"
    got["not-a-kind"] = "print"
    again = geterr()
    if again != model.state:
        raise Violation("profile-differs", "%s: editing the mapping "
                        "returned by geterr() changed the profile to %r" %
                        (where, again))
    for k in KINDS:
        cur = geterrcall(k)
        want = _INITIAL_CB[k] if model.cb[k] == "default" else \
            CBS[model.cb[k]]
        if cur is not want:
            raise Violation("callback-differs", "%s: geterrcall(%r) is not "
                            "the registered callback (%s)" %
                            (where, k, model.cb[k]))


def run(program, model, rec, path, stats):
    from biom.err import seterr, seterrcall, errstate, geterr
    for idx, stmt in enumerate(program):
        where = "%s[%d] %r" % (path, idx, {k: v for k, v in stmt.items()
                                          if k != "body"})
        s = stmt["s"]
        if s == "seterr":
            new = model.apply_kw(stmt["kw"])
            old_model = dict(model.state)
            try:
                ret = seterr(**_real_kw(stmt["kw"]))
                refused = False
            except Exception:
                refused = True
            if new is None:
                stats["refused"] += 1
                if any(k in KINDS and v in REACTIONS
                       for k, v in stmt["kw"].items()):
                    stats["mixed_refused"] += 1
                if not refused:
                    raise Violation("invalid-seterr-accepted", "%s was not "
                                    "refused" % where)
            else:
                if refused:
                    raise Violation("valid-seterr-refused", "%s raised" %
                                    where)
                if ret != old_model:
                    raise Violation("seterr-return", "%s returned %r, the "
                                    "previous profile was %r" %
                                    (where, ret, old_model))
                model.state = new
                # the returned previous profile is the caller's to keep
                ret["sampdup"] = "bogus"
                ret.pop("empty", None)
        elif s == "seterrcall":
            cb = _INITIAL_CB.get(stmt["kind"]) if stmt["cb"] == "default" \
                else CBS[stmt["cb"]]
            try:
                old = seterrcall(stmt["kind"], cb)
                refused = False
            except Exception:
                refused = True
            if stmt["kind"] not in KINDS:
                if not refused:
                    raise Violation("invalid-seterrcall-accepted", where)
            else:
                if refused:
                    raise Violation("valid-seterrcall-refused", where)
                want_old = _INITIAL_CB[stmt["kind"]] if \
                    model.cb[stmt["kind"]] == "default" else \
                    CBS[model.cb[stmt["kind"]]]
                if old is not want_old:
                    raise Violation("seterrcall-return", "%s did not return "
                                    "the previous callback" % where)
                model.cb[stmt["kind"]] = stmt["cb"]
        elif s == "probe":
            kind = stmt["kind"]
            sites = SITES[kind]
            site = stmt["site"]
            site = sites[site % len(sites)] if isinstance(site, int) else site
            probe(kind, site, model, where, rec,
                  stmt.get("wfilter", "always"))
            stats["probes"] += 1
        elif s == "cbswap":
            # macro: the kind reacts by callback `first`, fires, the callback
            # is replaced (no seterr in between), fires again
            k_ = stmt["kind"]
            run([{"s": "seterr", "kw": {k_: "call"}},
                 {"s": "seterrcall", "kind": k_, "cb": stmt["first"]},
                 {"s": "probe", "kind": k_, "site": stmt["site"]},
                 {"s": "seterrcall", "kind": k_, "cb": stmt["second"]},
                 {"s": "probe", "kind": k_, "site": stmt["site"]}],
                model, rec, path + "[%d]<" % idx, stats)
        elif s == "partition_loop":
            # the caller's code between two parts of a partition() runs
            # under the caller's profile
            from biom import Table
            t_ = Table(np.array([[1.0, 0.0, 2.0], [0.0, 4.0, 3.0]]),
                       ["o1", "o2"], ["s1", "s2", "s3"])
            n_parts = 0
            for _lab, _part in t_.partition(
                    lambda i, md: i, axis="sample",
                    remove_empty=bool(stmt.get("remove_empty"))):
                n_parts += 1
                check_profile(model, where + " (between parts)")
                run(stmt["body"], model, rec, path + "[%d]~" % idx, stats)
            if n_parts != 3:
                raise Violation("partition-loop", "%s: %d parts" %
                                (where, n_parts))
        elif s == "probe_valid":
            seen, detail = observe_reaction(valid_input())
            if seen:
                raise Violation("reaction-without-error", "%s: a valid "
                                "construction produced %r (%r)" %
                                (where, sorted(seen), detail))
        elif s == "errstate":
            new = model.apply_kw(stmt["kw"])
            outer = dict(model.state)
            entered = False
            left_by_boom = False
            try:
                # the override object is made first and entered afterwards:
                # making it must not touch the profile ("in force exactly
                # within its block"); `with errstate(..)` is the same two steps
                cm = errstate(**_real_kw(stmt["kw"]))
                check_profile(model, where + " (override made, not entered)")
                with cm:
                    entered = True
                    if new is None:
                        raise Violation("invalid-errstate-accepted", "%s "
                                        "entered its block" % where)
                    model.state = new
                    check_profile(model, where + " (inside)")
                    stats["depth"] = max(stats["depth"], path.count("{") + 1)
                    run(stmt["body"], model, rec, path + "[%d]{" % idx, stats)
                    if stmt["raise"]:
                        stats["exc_exits"] += 1
                        if path.count("{") >= 1:
                            stats["nested_exc_exits"] += 1
                        raise Boom()
            except Boom:
                left_by_boom = True
            except Violation:
                raise
            except Exception as e:
                if entered or new is not None:
                    raise Violation("errstate-raised", "%s raised %s: %s" %
                                    (where, type(e).__name__, e))
                stats["refused"] += 1
            if entered and new is not None and stmt["raise"] and \
                    not left_by_boom:
                raise Violation("exception-swallowed", "%s: an exception "
                                "raised inside the block did not leave it" %
                                where)
            model.state = outer
        else:
            raise ValueError(stmt)
        check_profile(model, where)


def probe(kind, site, model, where, rec, wfilter="always"):
    from biom import Table
    want = model.state[kind]
    seen, detail = observe_reaction(trigger(kind, site), wfilter)
    rec.cls("failing-handler", bool(detail.get("cb_raised")) or
            (wfilter == "error" and want == "warn"))
    rec.cls("probe:%s:%s" % (kind, want))
    exp = {want} if want != "ignore" else set()
    if want == "call" and model.cb[kind] == "default":
        exp = set()           # the default callback does nothing observable
    if seen != exp:
        raise Violation("reaction-differs", "%s: kind %r is set to %r but "
                        "the offending %s produced %r (details %r)" %
                        (where, kind, want, site, sorted(seen),
                         {k: v for k, v in detail.items()
                          if k != "call_items"}))
    # (the wording of the message is not part of the property; only that a
    # warning / a printed line carries some text)
    if want == "warn" and not any(m.strip() for m in detail["warn"]):
        raise Violation("reaction-message", "%s: empty warning" % where)
    if want == "call" and exp:
        tags = [t for t, _ in detail["call_items"]]
        if tags != [model.cb[kind]]:
            raise Violation("wrong-callback", "%s: callbacks invoked %r, "
                            "registered is %r" % (where, tags, model.cb[kind]))
        item = detail["call_items"][0][1]
        if not isinstance(item, Table):
            raise Violation("callback-argument", "%s: callback got %r, not "
                            "the offending table" % (where, type(item)))


def check(case, rec):
    reset_profile()
    try:
        if "matrix" in case:
            return check_matrix(case, rec)
        model = Model()
        check_profile(model, "start")
        stats = {"refused": 0, "mixed_refused": 0, "probes": 0, "depth": 0,
                 "exc_exits": 0, "nested_exc_exits": 0}
        run(case["program"], model, rec, "p", stats)
        rec.cls("depth:%d" % stats["depth"])
        rec.cls("exception-exit", stats["exc_exits"] > 0)
        rec.cls("mixed-refused", stats["mixed_refused"] > 0)
        rec.nt(stats["probes"] > 0 and (stats["nested_exc_exits"] > 0 or
                                        stats["mixed_refused"] > 0))
    finally:
        reset_profile()


def check_matrix(case, rec):
    from biom.err import seterr, seterrcall
    m = case["matrix"]
    kind, reaction, site = m["kind"], m["reaction"], m["site"]
    model = Model()
    seterr(**{kind: reaction})
    model.state[kind] = reaction
    if reaction == "call":
        seterrcall(kind, CBS["cb1"])
        model.cb[kind] = "cb1"
    if m["trigger"]:
        probe(kind, site, model, "matrix %r" % (m,), rec)
    else:
        seen, detail = observe_reaction(valid_input())
        if seen:
            raise Violation("reaction-without-error", "valid input under "
                            "%s=%s produced %r" % (kind, reaction,
                                                   sorted(seen)))
    # the other kinds keep their default reaction
    check_profile(model, "matrix %r" % (m,))
    rec.nt(m["trigger"])


# ---------------------------------------------------------------------------
# exhaustive sub-runs

SIZE = {"quick": 3, "thorough": 4}


def ENUM_NAME(tier):
    return ("exhaustive: kinds x reactions x {trigger, valid input} x call "
            "sites, and every program of total size <= %d over %d simple "
            "statements and %d block headers x {normal, exception} exit" %
            (SIZE[tier], len(flat_statements()), len(BLOCK_HEADS)))


def programs(size):
    """All programs (lists of statements) of total size exactly `size`."""
    if size == 0:
        yield []
        return
    flat = flat_statements()
    for first_size in range(1, size + 1):
        if first_size == 1:
            firsts = list(flat)
        else:
            firsts = []
        # a block of total size first_size: header + body of size fs-1
        blocks = []
        for kw in BLOCK_HEADS:
            for exc in (False, True):
                for body in programs(first_size - 1):
                    blocks.append({"s": "errstate", "kw": kw, "body": body,
                                   "raise": exc})
        for first in firsts + blocks:
            for rest in programs(size - first_size):
                yield [first] + rest


def enum_chunks(tier):
    out = [("matrix", None)]
    flat = flat_statements()
    n_first = len(flat) + 1
    for size in range(1, SIZE[tier] + 1):
        for k in range(16):
            out.append(("programs", (size, k)))
    return out


def enum_chunk(tier, chunk):
    what, arg = chunk
    if what == "matrix":
        for kind in KINDS:
            for reaction in REACTIONS:
                for site in SITES[kind]:
                    yield {"matrix": {"kind": kind, "reaction": reaction,
                                      "site": site, "trigger": True}}
                yield {"matrix": {"kind": kind, "reaction": reaction,
                                  "site": "ctor", "trigger": False}}
        return
    size, k = arg
    for i, p in enumerate(programs(size)):
        if i % 16 == k:
            yield {"program": p}


REGRESSIONS = [
    {"program": [{"s": "errstate", "kw": {"obsdup": "ignore"}, "body": [],
                  "raise": True},
                 {"s": "probe", "kind": "obsdup", "site": 0}]},
    {"program": [{"s": "seterr", "kw": {"empty": "warn", "bogus": "ignore"}},
                 {"s": "probe", "kind": "empty", "site": 1}]},
    {"program": [{"s": "seterr", "kw": {"obssize": "ignore"}},
                 {"s": "probe", "kind": "obssize", "site": 0}]},
]
