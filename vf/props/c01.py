"""C01 - HDF5 (BIOM 2.x) write/read round trip is lossless."""
import os
import tempfile
from datetime import datetime, timezone, timedelta

import numpy as np
from hypothesis import strategies as st

from .. import gen, observe, h5spec
from ..core import Violation

ID = "C01"
LEVEL = "exploration"
RULE = ("HDF5-domain table spec (wild float64 values, full-Unicode IDs, "
        "per-category homogeneous metadata, group metadata) x construction "
        "form x history x compress x writer {to_hdf5(File), save_table(path)}"
        " x reader {load_table(path), parse_table(handle), "
        "Table.from_hdf5(handle)}; oracle = field-by-field comparison of a "
        "deep snapshot of the source with the loaded table; non-trivial = "
        ">= 1 non-zero and at least one of {non-ASCII or '/' in an ID, "
        "metadata present, unsorted indices, CSC layout, |v| >= 1e15 or "
        "< 1e-6}; distinct = canonical hash")
BUDGET = {"quick": {"shards": 16, "examples": 200},
          "thorough": {"shards": 16, "examples": 5000}}
ASSUMPTIONS = ["h5py and numpy are trusted",
               "creation date / generated-by are compared with the values "
               "passed to the writer"]

TMP = "/dev/shm" if os.path.isdir("/dev/shm") else None

DATES = st.one_of(
    st.datetimes(min_value=datetime(1, 1, 1), max_value=datetime(9999, 12, 31)),
    st.datetimes(min_value=datetime(1990, 1, 1),
                 max_value=datetime(2030, 1, 1),
                 timezones=st.sampled_from([
                     timezone.utc, timezone(timedelta(hours=5, minutes=30)),
                     timezone(timedelta(hours=-8))])))


def date_to_json(d):
    return d.isoformat()


def date_from_json(s):
    return datetime.fromisoformat(s)


@st.composite
def cases(draw, tier):
    spec = draw(gen.h5_table_specs(tier, poke=True, big=True))
    return {"table": spec,
            "compress": draw(st.booleans()),
            "writer": draw(st.sampled_from(["to_hdf5", "save_table",
                                            "to_hdf5", "save_table",
                                            "to_hdf5_group"])),
            "reader": draw(st.sampled_from(["load_table", "parse_table",
                                            "from_hdf5"])),
            "generated_by": draw(gen._H5TEXT1),
            "date": date_to_json(draw(DATES)),
            "rewrite": draw(st.sampled_from([False, False, True]))}


def strategy(tier):
    return cases(tier)


def md_numeric_equal(a, b):
    """Metadata equality where numbers compare numerically (HDF5 stores one
    element type per dataset, so 1 == 1.0 == True)."""
    a, b = observe.norm_md(a), observe.norm_md(b)
    if a is None or b is None:
        return a is None and b is None
    if len(a) != len(b):
        return False
    for x, y in zip(a, b):
        if set(x) != set(y):
            return False
        for k in x:
            u, v = x[k], y[k]
            if isinstance(u, (bool, int, float)) and \
                    isinstance(v, (bool, int, float)):
                if u != v:
                    return False
            elif type(u) is not type(v) or u != v:
                return False
    return True


def earlier_write_with_custom_formatters(src):
    """Another table with the same category names is written with
    `format_fs={category: f}`; what `f` does is that call's business only."""
    import h5py
    from biom import Table
    from .. import h5spec
    cats = sorted({k for key in ("obs_md", "samp_md")
                   for m in (src[key] or []) for k in (m or {})})
    if not cats:
        return

    def custom(grp, header, md, compression):
        name = "metadata/" + header.replace("/", "@@SLASH@@")
        grp.create_dataset(name, shape=(len(md),),
                           dtype=h5py.string_dtype(),
                           data=[b"written by a custom formatter"] * len(md))
    md = [{c: "x" for c in cats}]
    small = Table(np.array([[1.0]]), ["o"], ["s"], md, md)
    with h5spec.mem_file() as f:
        small.to_hdf5(f, "earlier", format_fs={c: custom for c in cats})


def write(t, path, case):
    import h5py
    from biom.parse import save_table
    date = date_from_json(case["date"])
    if case["writer"] == "to_hdf5_group":
        # into a group of a file that holds something else as well
        with h5py.File(path, "w") as f:
            f.create_group("tables/other").attrs["id"] = "not this one"
            t.to_hdf5(f.create_group("tables/one"), case["generated_by"],
                      compress=case["compress"], creation_date=date)
    elif case["writer"] == "to_hdf5":
        with h5py.File(path, "w") as f:
            t.to_hdf5(f, case["generated_by"], compress=case["compress"],
                      creation_date=date)
    else:
        save_table(t, path, generated_by=case["generated_by"],
                   compress=case["compress"], creation_date=date)


def read(path, how, group=None):
    import h5py
    from biom import load_table, Table
    from biom.parse import parse_biom_table
    if group is not None:
        with h5py.File(path, "r") as f:
            return Table.from_hdf5(f[group])
    if how == "load_table":
        first = load_table(path)
        if not first.is_empty() and len(str(path)) % 2:
            # edit what was loaded, load again: the file has not changed
            first.transform(lambda v, i, md: v * 2 + 1, axis="observation",
                            inplace=True)
            first.transform(lambda v, i, md: v * 2 + 1, axis="sample",
                            inplace=True)
            return load_table(path)
        return first
    with h5py.File(path, "r") as f:
        if how == "parse_table":
            return parse_biom_table(f)
        return Table.from_hdf5(f)


def gmd_payloads(g):
    if not g:
        return {}
    return {k: (v[1] if isinstance(v, (list, tuple)) else v)
            for k, v in g.items()}


def check(case, rec):
    spec = case["table"]
    t = gen.build_h5(spec, rec=rec)
    src = observe.snapshot(t)
    if not observe.all_finite(src):
        rec.skip("history overflowed to a non-finite value")
        return
    lay = observe.layout(t)
    rec.cls("fmt:%s" % lay.get("format"))
    rec.cls("unsorted", lay.get("sorted") is False)
    rec.cls("stored-zeros", bool(lay.get("stored_zeros")))
    rec.cls("compress", case["compress"])
    rec.cls("writer:" + case["writer"])
    rec.cls("reader:" + case["reader"])
    src_gmd = {a: gmd_payloads(t.group_metadata(a))
               for a in ("observation", "sample")}
    with tempfile.TemporaryDirectory(prefix="vf-c01-", dir=TMP) as d:
        # (an HDF5 file is one by content, whatever it is called)
        names = ["t.biom", "t.biom", "t.h5", "otu_table.txt", "t.json",
                 "table.tsv", "t"]
        path = os.path.join(d, names[len(case["generated_by"]) % len(names)])
        if len(case["generated_by"]) % 3 == 0:
            # an unrelated earlier write used custom formatters for the
            # same category names
            earlier_write_with_custom_formatters(src)
            rec.cls("after-a-write-with-custom-formatters")
        write(t, path, case)
        after_write = observe.snapshot(t)
        if after_write != src:
            raise Violation("writer-changed-source", "%r -> %r" %
                            (src, after_write))
        grp = "tables/one" if case["writer"] == "to_hdf5_group" else None
        r = read(path, case["reader"], grp)
        got = observe.snapshot(r)
        observe.check_lookups(r, got, "loaded table")
        got_gmd = {a: dict(r.group_metadata(a) or {})
                   for a in ("observation", "sample")}
        got_date, got_gen = r.create_date, r.generated_by
        if case.get("rewrite"):
            # the same path is written again with different content and
            # loaded again: what is read must be what was written last
            rec.cls("rewrite-same-path")
            t2 = t.copy()
            t2.update_ids({i: i + "'" for i in src["obs"]},
                          axis="observation", inplace=True)
            t2.update_ids({i: "2-" + i for i in src["samp"]}, axis="sample",
                          inplace=True)
            t2.transform(lambda v, i, md: v / 2, inplace=True)
            src2 = observe.snapshot(t2)
            if len(src["obs"]) % 2:
                os.remove(path)       # else: written over the existing file
            write(t2, path, case)
            got2 = observe.snapshot(read(path, case["reader"], grp))
            for k in ("obs", "samp", "rows"):
                if got2[k] != src2[k]:
                    raise Violation("stale-read-after-rewrite", "after "
                                    "re-writing the path, %s reads %r, "
                                    "written %r (first content %r)" %
                                    (k, got2[k], src2[k], src[k]))

    def bad(sub, msg):
        raise Violation(sub, msg)

    if got["obs"] != src["obs"]:
        bad("ids", "observation ids %r != %r" % (got["obs"], src["obs"]))
    if got["samp"] != src["samp"]:
        bad("ids", "sample ids %r != %r" % (got["samp"], src["samp"]))
    if got["rows"] != src["rows"]:
        bad("values", "matrix %r != %r" % (got["rows"], src["rows"]))
    if not md_numeric_equal(got["obs_md"], src["obs_md"]):
        bad("metadata", "observation metadata %r != %r" %
            (got["obs_md"], src["obs_md"]))
    if not md_numeric_equal(got["samp_md"], src["samp_md"]):
        bad("metadata", "sample metadata %r != %r" %
            (got["samp_md"], src["samp_md"]))
    if got["type"] != src["type"]:
        bad("type", "%r != %r" % (got["type"], src["type"]))
    want_id = src["table_id"] if src["table_id"] else "No Table ID"
    if got["table_id"] != want_id:
        bad("table-id", "%r != %r" % (got["table_id"], want_id))
    if got_gen != case["generated_by"]:
        bad("generated-by", "%r != %r" % (got_gen, case["generated_by"]))
    if got_date != date_from_json(case["date"]):
        bad("creation-date", "%r != %r" % (got_date, case["date"]))
    for a in ("observation", "sample"):
        if got_gmd[a] != src_gmd[a]:
            bad("group-metadata", "%s: %r != %r" % (a, got_gmd[a],
                                                    src_gmd[a]))

    vals = [abs(x) for row in src["rows"] for x in row if x != 0]
    ids = src["obs"] + src["samp"]
    rec.cls("non-ascii-id", any(not i.isascii() for i in ids))
    rec.cls("metadata", src["obs_md"] is not None or
            src["samp_md"] is not None)
    rec.cls("group-metadata", bool(src_gmd["observation"] or
                                   src_gmd["sample"]))
    rec.nt(bool(vals) and (
        any((not i.isascii()) or "/" in i for i in ids) or
        src["obs_md"] is not None or src["samp_md"] is not None or
        lay.get("sorted") is False or lay.get("format") == "csc" or
        any(v >= 1e15 or v < 1e-6 for v in vals)))


REGRESSIONS = [
    {"table": {"obs": ["é"], "samp": ["s/1"], "rows": [[1e-7]],
               "shape": [1, 1], "obs_md": None, "samp_md": None,
               "type": None, "table_id": None, "form": "dense",
               "history": [], "obs_gmd": None, "samp_gmd": None},
     "compress": True, "writer": "to_hdf5", "reader": "load_table",
     "generated_by": "vf", "date": "2020-01-02T03:04:05"},
]


def _large(n, m, dense, reader="load_table"):
    """Pinned cases with array lengths at / one past a power of two
    (block-wise writers and readers)."""
    rows = [[float((i * 31 + j * 17) % 89 + 1) / 4 if dense or
             (i + j) % 977 == 0 else 0.0 for j in range(m)] for i in range(n)]
    return {"table": {"obs": ["o%d" % i for i in range(n)],
                      "samp": ["s%d" % j for j in range(m)], "rows": rows,
                      "shape": [n, m], "obs_md": None, "samp_md": None,
                      "type": None, "table_id": None, "form": "dense",
                      "history": [], "obs_gmd": None, "samp_gmd": None},
            "compress": n % 2 == 0, "writer": "to_hdf5", "reader": reader,
            "generated_by": "vf", "date": "2020-01-02T03:04:05"}


REGRESSIONS += [_large(4096, 1, False), _large(1, 8192, False, "from_hdf5"),
                _large(4097, 1, True, "parse_table"), _large(1025, 1, True),
                _large(257, 255, True), _large(65537, 1, True, "from_hdf5")]
# positions past 2**15 on an axis shorter than 2**16 (narrow index types)
REGRESSIONS += [_large(40000, 1, True), _large(1, 40001, False, "from_hdf5")]
