"""C15 - the validator accepts what the library writes and rejects
structural corruption."""
import copy
import json
import os
import shutil
import tempfile

import numpy as np
from hypothesis import strategies as st

from .. import gen, observe, ops
from ..core import Violation
from . import c01, c02

ID = "C15"
LEVEL = "fault_enumeration"
RULE = ("base = generated table with a vocabulary type, naive creation date "
        "and non-empty generated-by, written by the library as JSON or HDF5; "
        "faults = the complete single-mutation grammar (delete/rename every "
        "required key / attribute / group / dataset, shape +-1 per axis, "
        "out-of-range / negative / mistyped / malformed coordinates, "
        "duplicate or blank IDs, non-object metadata, swapped matrix/element "
        "type, corrupted date/format/url, plus benign re-encodings) "
        "enumerated on every base, and one drawn double mutation; oracle: "
        "base valid; a mutant of a listed class is never 'valid'; a JSON "
        "mutant with numeric element type reported valid loads and yields "
        "the declared shape, IDs and values. evaluations = base files; "
        "non-trivial = base with >= 1 non-zero whose full grammar was "
        "applied; `mutants` in coverage counts (base, mutation) pairs")
BUDGET = {"quick": {"shards": 16, "examples": 25},
          "thorough": {"shards": 16, "examples": 600}}
FUZZ_SECONDS = 120   # thorough tier: atheris campaign on the same property
ASSUMPTIONS = ["an exception or a non-zero exit of validate-table counts as "
               "'not valid'",
               "mutation classes outside the statement's list are recorded "
               "without a verdict"]
TMP = c01.TMP

MUST_REJECT = {"missing", "shape", "coord-range", "wrong-type", "bad-id",
               "bad-metadata"}

from datetime import datetime
NAIVE_DATES = st.datetimes(min_value=datetime(1000, 1, 1),
                           max_value=datetime(9999, 12, 31))


@st.composite
def cases(draw, tier):
    container = draw(st.sampled_from(["json", "hdf5"]))
    if container == "json":
        n, m = draw(gen.shapes(tier))
        spec = {
            "obs": draw(st.lists(c02.JSON_ID, min_size=n, max_size=n,
                                 unique=True)),
            "samp": draw(st.lists(c02.JSON_ID, min_size=m, max_size=m,
                                  unique=True)),
            "rows": draw(gen.matrices(n, m, draw(st.sampled_from(
                ["wild", "dyadic", "count"])))),
            "obs_md": draw(c02.json_md(n)), "samp_md": draw(c02.json_md(m)),
            "type": draw(st.sampled_from(gen.TYPES)),
            "table_id": draw(st.one_of(st.none(), c02.ANYTEXT1)),
            "form": draw(st.sampled_from(gen.FORMS)),
            "history": draw(ops.histories("any")),
        }
    else:
        spec = draw(gen.h5_table_specs(tier))
        spec["type"] = draw(st.sampled_from(gen.TYPES))
        spec["history"] = [o for o in spec["history"]
                           if o["op"] != "transpose"]
    return {"table": spec, "container": container,
            "generated_by": draw(c02.ANYTEXT1.filter(lambda s: s.strip())
                                 if container == "json" else gen._H5TEXT1),
            "date": c01.date_to_json(draw(NAIVE_DATES)),
            "double": [draw(st.integers(0, 200)), draw(st.integers(0, 200))],
            "sub": draw(st.sampled_from([False] * 30 + [True])),
            # explicit creation_date argument / omitted (the writer stamps
            # the time itself) / omitted on a table that carries a creation
            # date of its own (what a loaded table does)
            "date_mode": draw(st.sampled_from(["explicit", "explicit",
                                               "omitted", "attr"]))}


def strategy(tier):
    return cases(tier)


# ---------------------------------------------------------------------------
# running the validator

def verdict(path, sub=False, fmt=None):
    """'valid' | 'invalid' | 'error' through the command and the function
    (sub=True: additionally through a real `biom validate-table` process)."""
    from ..cli import command
    validate_table = command("validate-table")
    import io
    import contextlib
    try:
        from biom.cli.table_validator import _validate_table
    except ImportError:       # helper renamed: the command route remains
        _validate_table = None
    try:
        if _validate_table is None:
            v1 = None
        else:
            ok, report = _validate_table(path, fmt)
            v1 = "valid" if ok else "invalid"
    except (Exception, SystemExit):
        v1 = "error"
    buf = io.StringIO()
    try:
        with contextlib.redirect_stdout(buf):
            validate_table.main(["-i", path] + (["-f", fmt] if fmt else []),
                                standalone_mode=False)
        v2 = "error"
    except SystemExit as e:
        v2 = "valid" if e.code in (0, None) else "invalid"
    except Exception:
        v2 = "error"
    out = buf.getvalue()
    if v1 is None:
        v1 = v2
    # the report text is informative only; if it claims validity the exit
    # status must agree
    says_valid = "is a valid BIOM-formatted file" in out
    if says_valid and v2 == "invalid":
        raise Violation("report-and-exit-status-disagree", "report says "
                        "valid, exit status says invalid: %r" % out[-200:])
    says_valid = says_valid or v2 == "valid"
    if sub:
        from ..cli import invoke
        rc, out2 = invoke(validate_table, "validate-table", ["-i", path],
                          True)
        v3 = "valid" if rc == 0 else "invalid"
        if v2 != "error" and v3 != v2:
            raise Violation("process-and-command-disagree", "biom "
                            "validate-table exits %r, in-process verdict %r"
                            % (rc, v2))
        says_valid = says_valid or \
            "is a valid BIOM-formatted file" in out2
    return v1, v2, says_valid


# ---------------------------------------------------------------------------
# JSON mutation grammar: (name, class, f(doc) -> mutated doc or None)

JSON_KEYS = ["format", "format_url", "type", "rows", "columns", "shape",
             "data", "matrix_type", "matrix_element_type", "generated_by",
             "id", "date"]


def json_mutations():
    muts = []

    def add(name, cls):
        def deco(f):
            muts.append((name, cls, f))
            return f
        return deco

    for k in JSON_KEYS:
        add("delete:" + k, "missing")(lambda d, k=k: (d.pop(k), d)[1])
        add("rename:" + k, "missing")(
            lambda d, k=k: (d.__setitem__(k + "_x", d.pop(k)), d)[1])
    for ax in (0, 1):
        for delta in (1, -1):
            def f(d, ax=ax, delta=delta):
                d["shape"][ax] += delta
                return d
            add("shape[%d]%+d" % (ax, delta), "shape")(f)

    @add("rows:drop-last", "shape")
    def _(d):
        if len(d["rows"]) < 2:
            return None
        d["data"] = [t for t in d["data"] if t[0] != len(d["rows"]) - 1]
        d["rows"].pop()
        return d

    @add("columns:append", "shape")
    def _(d):
        d["columns"].append({"id": "extra-column-id", "metadata": None})
        return d

    for name, trip in (("row-out-of-range", lambda n, m: [n, 0, 1.5]),
                       ("col-out-of-range", lambda n, m: [0, m, 1.5]),
                       ("row-far-out", lambda n, m: [n + 7, m - 1, 1.5]),
                       ("row-negative", lambda n, m: [-1, 0, 1.5]),
                       ("col-negative", lambda n, m: [0, -1, 1.5])):
        def f(d, trip=trip):
            n, m = d["shape"]
            d["data"].append(trip(n, m))
            return d
        add("coord:" + name, "coord-range")(f)

    @add("coord:float-row", "wrong-type")
    def _(d):
        d["data"].append([0.5, 0, 1.5])
        return d

    @add("coord:bool-row", "wrong-type")
    def _(d):
        d["data"].append([True, 0, 1.5])
        return d

    @add("coord:bool-col", "wrong-type")
    def _(d):
        d["data"].append([0, False, 1.5])
        return d

    @add("coord:string-col", "wrong-type")
    def _(d):
        d["data"].append([0, "0", 1.5])
        return d

    @add("value:string", "wrong-type")
    def _(d):
        d["data"].append([0, 0, "1.5"]) if not d["data"] else \
            d["data"].__setitem__(0, d["data"][0][:2] + ["1.5"])
        return d

    @add("value:null", "wrong-type")
    def _(d):
        if not d["data"]:
            d["data"].append([0, 0, None])
        else:
            d["data"][-1] = d["data"][-1][:2] + [None]
        return d

    @add("element-type:int-with-float-data", "wrong-type")
    def _(d):
        if not any(float(t[2]) != int(t[2]) for t in d["data"]
                   if abs(t[2]) < 1e15) and not d["data"]:
            return None
        if not d["data"]:
            return None
        d["matrix_element_type"] = "int"
        return d

    @add("element-type:unicode", "wrong-type")
    def _(d):
        if not d["data"]:
            return None
        d["matrix_element_type"] = "unicode"
        return d

    @add("coord:short-triple", "malformed")
    def _(d):
        d["data"].append([0, 0])
        return d

    @add("coord:long-triple", "malformed")
    def _(d):
        d["data"].append([0, 0, 1.0, 2.0])
        return d

    @add("coord:scalar", "malformed")
    def _(d):
        d["data"].append(3)
        return d

    for field in ("rows", "columns"):
        def dup(d, field=field):
            if len(d[field]) < 2:
                return None
            d[field][-1]["id"] = d[field][0]["id"]
            return d
        add("id:duplicate:" + field, "bad-id")(dup)

        def blank(d, field=field):
            d[field][0]["id"] = ""
            return d
        add("id:blank:" + field, "bad-id")(blank)

        def null_id(d, field=field):
            d[field][-1]["id"] = None
            return d
        add("id:null:" + field, "bad-id")(null_id)

        def noid(d, field=field):
            del d[field][0]["id"]
            return d
        add("id:missing-key:" + field, "missing")(noid)

        def nomd(d, field=field):
            del d[field][-1]["metadata"]
            return d
        add("metadata:missing-key:" + field, "missing")(nomd)
        for nm, val in (("list", ["a", "b"]), ("string", "x"), ("number", 3),
                        ("empty-list", []), ("true", True)):
            def badmd(d, field=field, val=val):
                d[field][0]["metadata"] = val
                return d
            add("metadata:%s:%s" % (nm, field), "bad-metadata")(badmd)

    @add("matrix_type:dense-with-sparse-data", "other")
    def _(d):
        d["matrix_type"] = "dense"
        return d

    @add("matrix_type:unknown", "other")
    def _(d):
        d["matrix_type"] = "banded"
        return d

    @add("element-type:unknown", "other")
    def _(d):
        d["matrix_element_type"] = "complex"
        return d

    @add("date:garbage", "other")
    def _(d):
        d["date"] = "yesterday"
        return d

    @add("format:garbage", "other")
    def _(d):
        d["format"] = "Biological Observation Matrix 9.9"
        return d

    @add("format_url:garbage", "other")
    def _(d):
        d["format_url"] = "http://example.org"
        return d

    @add("type:unknown", "other")
    def _(d):
        d["type"] = "Spreadsheet"
        return d

    @add("generated_by:empty", "other")
    def _(d):
        d["generated_by"] = ""
        return d

    # benign re-encodings: must stay loadable-as-declared when valid
    @add("benign:reverse-key-order", "benign")
    def _(d):
        return {k: d[k] for k in reversed(list(d))}

    @add("benign:dense-encoding", "benign")
    def _(d):
        n, m = d["shape"]
        rows = [[0.0] * m for _ in range(n)]
        for r, c, v in d["data"]:
            rows[r][c] = v
        d["matrix_type"] = "dense"
        d["data"] = rows
        return d

    def _dense(d):
        n, m = d["shape"]
        rows = [[0.0] * m for _ in range(n)]
        for r, c, v in d["data"]:
            rows[r][c] = float(v)
        d["matrix_type"] = "dense"
        d["data"] = rows
        return d

    # element types inside a *dense* document (numpy-style promotion of a
    # whole row must not hide one element of the wrong type)
    for nm, val in (("int-among-floats", 3), ("string-cell", "2.5"),
                    ("null-cell", None), ("bool-cell", True)):
        def cell(d, val=val):
            if d.get("matrix_element_type") != "float" or \
                    not d["shape"][0] or d["shape"][1] < 2:
                return None
            d = _dense(d)
            d["data"][-1][0] = val
            # at least one genuine float stays in the same row
            d["data"][-1][1] = 2.5
            return d
        add("dense:" + nm, "wrong-type")(cell)

    @add("benign:int-element-type", "benign")
    def _(d):
        if any(float(t[2]) != int(t[2]) or abs(t[2]) > 2 ** 50
               for t in d["data"]):
            return None
        d["matrix_element_type"] = "int"
        d["data"] = [[t[0], t[1], int(t[2])] for t in d["data"]]
        return d

    @add("benign:stored-zero-triple", "benign")
    def _(d):
        n, m = d["shape"]
        have = {(t[0], t[1]) for t in d["data"]}
        for i in range(n):
            for j in range(m):
                if (i, j) not in have:
                    d["data"].append([i, j, 0.0])
                    return d
        return None

    @add("benign:shuffled-triples", "benign")
    def _(d):
        d["data"] = d["data"][::-1]
        return d

    @add("benign:metadata-null-to-empty-object", "benign")
    def _(d):
        for r in d["rows"]:
            if r["metadata"] is None:
                r["metadata"] = {}
        return d
    return muts


JSON_MUTS = json_mutations()


def declared(doc):
    """(obs ids, samp ids, dense rows) a JSON document declares."""
    n, m = doc["shape"]
    rows = [[0.0] * m for _ in range(n)]
    if doc["matrix_type"] == "dense":
        rows = [[float(v) for v in r] for r in doc["data"]]
    else:
        for r, c, v in doc["data"]:
            rows[r][c] = float(v)
    return ([r["id"] for r in doc["rows"]],
            [c["id"] for c in doc["columns"]], rows)


# ---------------------------------------------------------------------------
# HDF5 mutation grammar: (name, class, f(h5py.File) -> True | None)

H5_ATTRS = ["format-url", "format-version", "type", "shape", "nnz",
            "generated-by", "id", "creation-date"]
H5_GROUPS = ["observation", "sample", "observation/matrix", "sample/matrix",
             "observation/metadata", "sample/metadata",
             "observation/group-metadata", "sample/group-metadata"]
H5_DATASETS = ["observation/ids", "observation/matrix/data",
               "observation/matrix/indices", "observation/matrix/indptr",
               "sample/ids", "sample/matrix/data", "sample/matrix/indices",
               "sample/matrix/indptr"]


def _replace(f, path, data, dtype=None):
    del f[path]
    f.create_dataset(path, data=data, dtype=dtype)


def h5_mutations():
    import h5py
    muts = []

    def add(name, cls):
        def deco(fn):
            muts.append((name, cls, fn))
            return fn
        return deco

    for a in H5_ATTRS:
        add("delete-attr:" + a, "missing")(
            lambda f, a=a: (f.attrs.__delitem__(a), True)[1])
        add("rename-attr:" + a, "missing")(
            lambda f, a=a: (f.attrs.__setitem__(a + "_x", f.attrs[a]),
                            f.attrs.__delitem__(a), True)[2])
    for g in H5_GROUPS:
        add("delete-group:" + g, "missing")(
            lambda f, g=g: (f.__delitem__(g), True)[1])
    for g in ("observation/matrix", "sample/metadata"):
        add("rename-group:" + g, "missing")(
            lambda f, g=g: (f.move(g, g + "_x"), True)[1])
    for d in H5_DATASETS:
        add("delete-dataset:" + d, "missing")(
            lambda f, d=d: (f.__delitem__(d), True)[1])
        add("rename-dataset:" + d, "missing")(
            lambda f, d=d: (f.move(d, d + "_x"), True)[1])
    for ax in (0, 1):
        for delta in (1, -1):
            def fn(f, ax=ax, delta=delta):
                sh = np.array(f.attrs["shape"])
                sh[ax] += delta
                f.attrs["shape"] = sh
                return True
            add("shape[%d]%+d" % (ax, delta), "shape")(fn)

    def ids_edit(axis, how):
        def fn(f):
            ids = [x.decode("utf8") if isinstance(x, bytes) else x
                   for x in f[axis + "/ids"][()]]
            if how == "append":
                ids.append("extra-id")
            elif how == "drop":
                if len(ids) < 2:
                    return None
                ids.pop()
            elif how == "duplicate":
                if len(ids) < 2:
                    return None
                ids[-1] = ids[0]
            elif how == "blank":
                ids[0] = ""
            _replace(f, axis + "/ids", [i.encode("utf8") for i in ids],
                     h5py.special_dtype(vlen=str))
            return True
        return fn
    for axis in ("observation", "sample"):
        add("ids:append:" + axis, "shape")(ids_edit(axis, "append"))
        add("ids:drop:" + axis, "shape")(ids_edit(axis, "drop"))
        add("ids:duplicate:" + axis, "bad-id")(ids_edit(axis, "duplicate"))
        add("ids:blank:" + axis, "bad-id")(ids_edit(axis, "blank"))

    def index_edit(axis, val):
        def fn(f):
            ind = f[axis + "/matrix/indices"][()]
            if len(ind) == 0:
                return None
            n, m = f.attrs["shape"]
            minor = m if axis == "observation" else n
            ind[-1] = minor + val if val >= 0 else val
            _replace(f, axis + "/matrix/indices", ind, np.int32)
            return True
        return fn
    for axis in ("observation", "sample"):
        add("coord:index-out-of-range:" + axis, "coord-range")(
            index_edit(axis, 0))
        add("coord:index-far-out:" + axis, "coord-range")(
            index_edit(axis, 9))
        add("coord:index-negative:" + axis, "coord-range")(
            index_edit(axis, -1))

    def dtype_edit(path, dtype, conv):
        def fn(f):
            v = f[path][()]
            if len(v) == 0:
                return None
            _replace(f, path, conv(v), dtype)
            return True
        return fn
    vstr = h5py.special_dtype(vlen=str)
    for axis in ("observation", "sample"):
        add("dtype:data-as-text:" + axis, "wrong-type")(
            dtype_edit(axis + "/matrix/data", vstr,
                       lambda v: [repr(float(x)).encode() for x in v]))
        add("dtype:indices-as-float:" + axis, "wrong-type")(
            dtype_edit(axis + "/matrix/indices", np.float64,
                       lambda v: v.astype(float) + 0.5))
        add("dtype:indptr-as-text:" + axis, "wrong-type")(
            dtype_edit(axis + "/matrix/indptr", vstr,
                       lambda v: [str(int(x)).encode() for x in v]))

    def md_short(axis):
        def fn(f):
            g = f[axis + "/metadata"]
            names = list(g)
            if not names:
                return None
            v = g[names[0]][()]
            if len(v) < 2:
                return None
            dt = g[names[0]].dtype
            del g[names[0]]
            g.create_dataset(names[0], data=v[:-1], dtype=dt)
            return True
        return fn
    for axis in ("observation", "sample"):
        add("metadata:short-dataset:" + axis, "other")(md_short(axis))

    @add("nnz:negative", "other")
    def _(f):
        f.attrs["nnz"] = -1
        return True

    @add("nnz:as-text", "other")
    def _(f):
        f.attrs["nnz"] = "many"
        return True

    @add("format-version:9.9", "other")
    def _(f):
        f.attrs["format-version"] = (9, 9)
        return True

    @add("format-url:garbage", "other")
    def _(f):
        f.attrs["format-url"] = "http://example.org"
        return True

    @add("creation-date:garbage", "other")
    def _(f):
        f.attrs["creation-date"] = "yesterday"
        return True

    @add("type:unknown", "other")
    def _(f):
        f.attrs["type"] = "Spreadsheet"
        return True

    @add("generated-by:empty", "other")
    def _(f):
        f.attrs["generated-by"] = ""
        return True

    @add("benign:extra-attribute", "benign")
    def _(f):
        f.attrs["comment"] = "hello"
        return True

    @add("benign:extra-group", "benign")
    def _(f):
        f.create_group("extras")
        return True
    return muts


H5_MUTS = None


def _h5_muts():
    global H5_MUTS
    if H5_MUTS is None:
        H5_MUTS = h5_mutations()
    return H5_MUTS


def targets(name):
    """Members of the file a mutation touches (used to keep double mutations
    independent)."""
    p = name.split(":")
    head = p[0]
    if head in ("delete", "rename", "delete-attr", "rename-attr",
                "delete-group", "rename-group", "delete-dataset",
                "rename-dataset"):
        return {p[1]}
    if head.startswith("shape["):
        return {"shape"}
    if name == "rows:drop-last":
        return {"rows", "data"}
    if name == "columns:append":
        return {"columns"}
    if head in ("coord", "value"):
        if len(p) == 3:      # hdf5 coord:<what>:<axis>
            return {p[2] + "/matrix/indices"}
        return {"data"}
    if head == "dtype":
        return {p[2] + "/matrix/" + p[1].split("-")[0]}
    if head == "ids":
        return {p[2] + "/ids", "shape"}
    if head in ("id", "metadata"):
        if p[1] == "short-dataset":
            return {p[2] + "/metadata"}
        return {p[2]}
    if name in ("matrix_type:unknown", "element-type:unknown"):
        # only the label changes; what `data` holds is still there to be
        # judged (an accepted file must load, whatever the label says)
        return {"matrix_type" if head == "matrix_type"
                else "matrix_element_type"}
    if head == "element-type":
        return {"matrix_element_type", "data"}
    if head == "matrix_type":
        return {"matrix_type", "data"}
    if head == "benign":
        return {"data", "matrix_type", "matrix_element_type", "rows"}
    return {head}


# ---------------------------------------------------------------------------

def check(case, rec):
    spec = case["table"]
    container = case["container"]
    date = c01.date_from_json(case["date"])
    gby = case["generated_by"]
    rec.cls("container:" + container)
    if container == "json":
        t = c02.build(spec, rec=rec)
    else:
        t = gen.build_h5(spec, rec=rec)
    src = observe.snapshot(t)
    if not observe.all_finite(src):
        rec.skip("history overflowed to a non-finite value")
        return
    if src["type"] not in gen.TYPES:
        rec.skip("history dropped the table type")
        return
    has_nz = any(x != 0 for row in src["rows"] for x in row)
    with tempfile.TemporaryDirectory(prefix="vf-c15-", dir=TMP) as d:
        base = os.path.join(d, "base.biom")
        mode = case.get("date_mode", "explicit")
        rec.cls("date:" + mode)
        dkw = {"creation_date": date} if mode == "explicit" else {}
        if mode == "attr":
            t.create_date = date
        if container == "json":
            text = t.to_json(gby, **dkw)
            with open(base, "w", encoding="utf8") as f:
                f.write(text)
            try:
                doc0 = json.loads(text)
            except ValueError as e:
                raise Violation("library-output-not-valid", "to_json wrote "
                                "text that is not JSON (%s): %r" %
                                (e, text[:400]))
        else:
            import h5py
            with h5py.File(base, "w") as f:
                t.to_hdf5(f, gby, **dkw)
        # (A) what the library writes is valid
        v = verdict(base, sub=case.get("sub", False))
        # every accepted spelling of the file's own format version
        for fmt in (["1.0.0"] if container == "json" else ["2.1", "2.1.0"]):
            vf_ = verdict(base, fmt=fmt)
            if vf_[0] != "valid" or vf_[1] != "valid":
                raise Violation("library-output-not-valid", "%s written by "
                                "the library, validated with --format-version"
                                " %s: verdict %r" % (container, fmt, vf_))
        if v[0] != "valid" or v[1] != "valid":
            raise Violation("library-output-not-valid", "%s written by the "
                            "library: verdict %r" % (container, v))
        # the same path holding a library-written file of the *other*
        # container a moment later must be judged for what it holds now
        if case.get("double", [0])[0] % 4 == 0:
            from biom import Table
            small = Table(np.array([[1.0, 0.0], [2.0, 3.0]]), ["a", "b"],
                          ["x", "y"], type="OTU table")
            swap = os.path.join(d, "swap.biom")
            shutil.copyfile(base, swap)
            verdict(swap)
            os.remove(swap)
            if container == "json":
                import h5py
                with h5py.File(swap, "w") as f:
                    small.to_hdf5(f, "vf")
            else:
                with open(swap, "w", encoding="utf8") as f:
                    f.write(small.to_json("vf"))
            vs = verdict(swap)
            rec.cls("same-path-other-container")
            if vs[0] != "valid" or vs[1] != "valid":
                raise Violation("library-output-not-valid", "a path that "
                                "held a %s file was re-written by the "
                                "library in the other container and is now "
                                "judged %r" % (container, vs))
        muts = JSON_MUTS if container == "json" else _h5_muts()
        applied = []

        def run(names_fns, label):
            p = os.path.join(d, "mut.biom")
            if container == "json":
                doc = copy.deepcopy(doc0)
                for _, _, fn in names_fns:
                    try:
                        doc = fn(doc)
                    except (KeyError, IndexError, TypeError, ValueError):
                        doc = None   # second mutation's target is gone
                    if doc is None:
                        return None
                with open(p, "w", encoding="utf8") as f:
                    json.dump(doc, f)
            else:
                import h5py
                shutil.copyfile(base, p)
                with h5py.File(p, "r+") as f:
                    for _, _, fn in names_fns:
                        try:
                            ok = fn(f)
                        except (KeyError, IndexError, TypeError, ValueError):
                            ok = None   # second mutation's target is gone
                        if ok is None:
                            return None
                doc = None
            return p, doc

        def judge(names_fns, label):
            res = run(names_fns, label)
            if res is None:
                rec.cls("mutation-not-applicable")
                return
            p, doc = res
            rec.cls("mutants")
            classes = {c for _, c, _ in names_fns}
            for c in classes:
                rec.cls("mut-class:" + c)
            v = verdict(p, sub=case.get("sub", False) and
                        len(applied) % 17 == 0)
            says_valid = v[0] == "valid" or v[1] == "valid" or v[2]
            applied.append(label)
            if classes & MUST_REJECT and says_valid:
                raise Violation(
                    "corrupt-file-reported-valid",
                    "%s mutation %s (class %s): verdict %r" %
                    (container, label, sorted(classes & MUST_REJECT), v),
                    container=container, label=label,
                    classes=sorted(classes))
            if v[0] != v[1] and "error" not in v[:2]:
                raise Violation("command-and-function-disagree",
                                "%s: %r" % (label, v))
            if container == "json" and says_valid and \
                    doc.get("matrix_element_type") in ("int", "float"):
                # valid + numeric element type => loads as declared
                from biom import load_table
                try:
                    if doc["matrix_type"] == "sparse" and \
                            len({(x[0], x[1]) for x in doc["data"]}) != \
                            len(doc["data"]):
                        return   # duplicate coordinates: value ambiguous
                    o, s, rows = declared(doc)
                except Exception:
                    raise Violation("valid-but-undeclarable", "%s: the "
                                    "document reported valid does not "
                                    "declare a matrix" % label, label=label)
                try:
                    lt = observe.snapshot(load_table(p))
                except Exception as e:
                    raise Violation("valid-but-unloadable", "%s reported "
                                    "valid but load_table raised %s: %s" %
                                    (label, type(e).__name__, e), label=label)
                if lt["obs"] != o or lt["samp"] != s or \
                        (o and s and lt["rows"] != rows):
                    raise Violation("valid-but-loads-differently",
                                    "%s: loaded %r, declared %r" %
                                    (label, (lt["obs"], lt["samp"],
                                             lt["rows"]), (o, s, rows)),
                                    label=label)
                rec.cls("valid-mutant-loaded-as-declared")

        def judged(names_fns, label):
            try:
                judge(names_fns, label)
            except Violation as v:
                if not rec.absorb(v):
                    raise

        only = case.get("only")
        for mt in muts:
            if only is None or mt[0] in only:
                judged([mt], mt[0])
        if only is not None:
            return
        a, b = case["double"]
        m1, m2 = muts[a % len(muts)], muts[b % len(muts)]
        # two mutations of the same class or touching the same member can
        # cancel each other (shape-1 + drop one ID), so only independent
        # pairs carry a verdict
        pairs = [(m1, m2)]
        # ... and pairs of a mutation that must be rejected with one that
        # need not be (the second must not mask the first)
        others = [m_ for m_ in muts if m_[1] not in MUST_REJECT]
        rejects = [m_ for m_ in muts if m_[1] in MUST_REJECT]
        if others and rejects:
            pairs += [(others[(a + 7 * k_) % len(others)],
                       rejects[(b + 13 * k_) % len(rejects)])
                      for k_ in range(6)]
        for m1, m2 in pairs:
            if m1[0] != m2[0] and m1[1] != m2[1] and \
                    not (targets(m1[0]) & targets(m2[0])):
                judged([m1, m2], m1[0] + " + " + m2[0])
                rec.cls("double-mutants")
    rec.nt(has_nz and len(applied) > 20)


# ---------------------------------------------------------------------------
# known findings: the HDF5 validator performs no check of coordinates,
# element types or ID values (DESIGN section 6, #17)

H5_UNCHECKED = {"coord-range", "wrong-type", "bad-id"}


def _h5_class(cls):
    def f(case, v):
        must = set(v.info.get("classes", [])) & MUST_REJECT
        return (v.sub == "corrupt-file-reported-valid" and
                v.info.get("container") == "hdf5" and
                cls in must and must <= H5_UNCHECKED)
    return f


CLASSIFIERS = {
    "hdf5-coordinates-not-checked": _h5_class("coord-range"),
    "hdf5-element-types-not-checked": _h5_class("wrong-type"),
    "hdf5-ids-not-checked": _h5_class("bad-id"),
}
