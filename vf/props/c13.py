"""C13 - value transforms touch only non-zero entries and mean what they
say."""
import math
import os
import tempfile

import numpy as np
from hypothesis import strategies as st

from .. import gen, ops, observe
from ..model import Ref
from ..core import Violation
from . import c01
from ..cli import SUB

ID = "C13"
LEVEL = "exploration"
RULE = ("table x history/layout x axis x inplace x {transform(f) with f from "
        "a named family: element-wise injective (2v+1, v^2 on positives, -v),"
        " vector-wise symmetric (v/sum, v-min(v), constant 0), id- and "
        "metadata-dependent; norm; pa; rankdata(5 tie methods); "
        "normalize-table -r|-p -a axis}; oracle = spy on the user function "
        "(once per ID, exactly the multiset of that vector's non-zero "
        "values, its ID and metadata) + numpy / scipy.stats reference "
        "computed from a deep snapshot + either-axis agreement for "
        "element-wise functions; non-trivial = non-square table with a zero "
        "and a non-zero cell whose layout is not the one the kernel needs; "
        "distinct = canonical hash")
BUDGET = {"quick": {"shards": 16, "examples": 250},
          "thorough": {"shards": 16, "examples": 5000}}
ASSUMPTIONS = ["exact (integer/dyadic) values so that vector sums are order "
               "independent", "scipy.stats.rankdata is the rank reference"]
TMP = c01.TMP

FNS = ["2v+1", "square", "neg", "div_sum", "minus_min", "zero", "by_id",
       "by_md", "zero_some", "indicator", "as_ints", "by_id_defaults"]
RANKS = ["average", "min", "max", "dense", "ordinal"]


@st.composite
def cases(draw, tier):
    what = draw(st.sampled_from(["transform", "transform", "norm", "pa",
                                 "rankdata", "cli"]))
    values = "posdyadic" if what in ("norm", "cli") else \
        draw(st.sampled_from(["int", "dyadic", "posint", "small", "count",
                              "count"]))
    shape = None
    long_ties = False
    if what == "rankdata" and draw(st.sampled_from([False, False, True])):
        # long vectors with many ties (sorting networks / unstable sorts only
        # show on more than a handful of entries)
        values = "small"
        a_, b_ = draw(st.integers(12, 48)), draw(st.integers(1, 3))
        shape = (a_, b_) if draw(st.booleans()) else (b_, a_)
        long_ties = True
    spec = draw(gen.table_specs(tier, values=values, md=True, history=True,
                                shape=shape))
    if values == "count" and what in ("transform", "rankdata", "pa") and \
            draw(st.integers(0, 2)) == 0:
        # a rarefied table: counts drawn down to a few per vector right
        # before the operation (cells emptied by the draw are zero cells)
        spec["history"] = spec["history"] + [{
            "op": "subsample", "axis": draw(ops.AX),
            "n": draw(st.integers(1, 4)), "seed": draw(st.integers(0, 99))}]
    case = {"table": spec, "what": what, "axis": draw(ops.AX),
            "inplace": draw(st.booleans()),
            # the flag as a numpy boolean (true/false, but not True/False)
            "npflag": draw(st.sampled_from([False, False, True])),
            # arguments passed positionally, in the documented order
            "positional": draw(st.sampled_from([False, False, True]))}
    if what == "transform":
        case["fn"] = draw(st.sampled_from(FNS))
    if what == "rankdata":
        case["method"] = draw(st.sampled_from(RANKS))
        if long_ties:
            # along the long axis, mostly with the method that depends on
            # the order of equal values
            case["method"] = draw(st.sampled_from(RANKS + ["ordinal"] * 4))
            case["axis"] = "observation" if shape[0] < shape[1] else "sample"
    if what in ("norm", "cli"):
        # totals far below / above 1 (powers of two keep everything exact)
        k = draw(st.sampled_from([0, 0, -40, -60, 40]))
        if k:
            spec["rows"] = [[x * 2.0 ** k for x in r] for r in spec["rows"]]
            spec["history"] = [o for o in spec["history"]
                               if o["op"] != "subsample"]
        case["scale"] = k
    if what == "cli":
        case["mode"] = draw(st.sampled_from(["-r", "-p"]))
        case["sub"] = draw(st.sampled_from(SUB))
        if case["mode"] == "-p" and \
                (len(spec["rows"]) + len(spec["rows"][0])) % 2 == 0:
            # presence/absence of negative entries is presence too
            spec["rows"] = [[-x if (i + j) % 2 else x
                             for j, x in enumerate(r)]
                            for i, r in enumerate(spec["rows"])]
            spec["history"] = [o for o in spec["history"]
                               if o["op"] != "subsample"]
        spec["obs_md"] = spec["samp_md"] = None
        spec["type"] = "OTU table"
    return case


def strategy(tier):
    return cases(tier)


def elementwise(name):
    """(vectorised function on arrays, scalar reference) or None."""
    if name == "2v+1":
        return (lambda v: v * 2 + 1), (lambda x: x * 2 + 1)
    if name == "square":
        return (lambda v: v * v), (lambda x: x * x)
    if name == "neg":
        return (lambda v: -v), (lambda x: -x)
    return None


def user_fn(name):
    ew = elementwise(name)
    if ew:
        return lambda v, i, md: ew[0](v)
    if name == "div_sum":
        return lambda v, i, md: v / v.sum() if v.size and v.sum() != 0 else v
    if name == "minus_min":
        return lambda v, i, md: v - v.min() if v.size else v
    if name == "zero":
        return lambda v, i, md: v * 0
    if name == "zero_some":
        return lambda v, i, md: np.where(v > 2, v, 0.0)
    if name == "indicator":
        # (a function may return another element type; what it returns is
        # what the table then holds, as numbers)
        return lambda v, i, md: v > 2
    if name == "as_ints":
        return lambda v, i, md: (v * 2).astype(np.int64)
    if name == "by_id_defaults":
        # the documented three arguments, declared with defaults
        return lambda v, i=None, md=None: v * (2 if i is None
                                               else len(i) + 1)
    if name == "by_id":
        return lambda v, i, md: v * (len(i) + 1)
    if name == "by_md":
        return lambda v, i, md: v * (3 if md is not None and md.get("k") == "a"
                                     else 5)
    raise ValueError(name)


def ref_vector(name, vec, i, md):
    """Expected transformed dense vector (zeros stay zero)."""
    nz = [x for x in vec if x != 0]
    ew = elementwise(name)
    if ew:
        return [ew[1](x) if x != 0 else 0.0 for x in vec]
    if name == "div_sum":
        s = sum(nz)
        return [x / s if x != 0 and s != 0 else x for x in vec]
    if name == "minus_min":
        m = min(nz) if nz else 0.0
        return [x - m if x != 0 else 0.0 for x in vec]
    if name == "zero":
        return [0.0 for _ in vec]
    if name == "zero_some":
        return [x if x > 2 else 0.0 for x in vec]
    if name == "indicator":
        return [1.0 if x > 2 else 0.0 for x in vec]
    if name == "as_ints":
        return [float(int(x * 2)) for x in vec]
    if name in ("by_id", "by_id_defaults"):
        return [x * (len(i) + 1) for x in vec]
    if name == "by_md":
        k = 3 if md is not None and md.get("k") == "a" else 5
        return [x * k for x in vec]
    raise ValueError(name)


def dense_from_vectors(ref, axis, vecs):
    if axis == "observation":
        return [list(v) for v in vecs]
    n = len(ref.obs)
    return [[vecs[j][i] for j in range(len(vecs))] for i in range(n)]


def check(case, rec):
    what, axis, inplace = case["what"], case["axis"], case["inplace"]
    if case.get("npflag"):
        inplace = np.bool_(inplace)
    t = gen.build(case["table"], rec=rec)
    before = observe.snapshot(t)
    if not observe.all_finite(before):
        rec.skip("history overflowed")
        return
    ref = Ref.from_snapshot(before)
    lay = observe.layout(t)
    rec.cls("fmt:%s" % lay.get("format"))
    rec.cls("unsorted", lay.get("sorted") is False)
    rec.cls("what:" + what)
    ids = ref.ids(axis)
    vecs = ref.vectors(axis)
    need = "csr" if axis == "observation" else "csc"
    has_zero = any(x == 0 for r in ref.rows for x in r)
    has_nz = any(x != 0 for r in ref.rows for x in r)
    nt = (len(ref.obs) != len(ref.samp) and has_zero and has_nz and
          lay.get("format") != need)

    def bad(sub, msg):
        raise Violation(sub, "%s [%s axis=%s inplace=%s layout=%r; table %r]"
                        % (msg, what, axis, inplace, lay, ref.as_dict()))

    def expect(r, want_rows, label, tol=False):
        if inplace and r is not t:
            bad("inplace-identity", "%s(inplace=True) returned another "
                "object" % label)
        if not inplace:
            if r is t:
                bad("inplace-identity", "%s(inplace=False) returned the "
                    "receiver" % label)
            if observe.snapshot(t) != before:
                bad("receiver-modified", "%s(inplace=False) changed the "
                    "receiver" % label)
        got = observe.snapshot(r)
        observe.check_lookups(r, got, label + " result")
        if got["obs"] != ref.obs or got["samp"] != ref.samp:
            bad("ids-changed", "%s changed ids" % label)
        for i in range(len(ref.obs)):
            for j in range(len(ref.samp)):
                a, w = got["rows"][i][j], want_rows[i][j]
                ok = (a == w) or (tol and math.isclose(a, w, rel_tol=1e-12,
                                                       abs_tol=0.0))
                if not ok:
                    bad("value", "%s: cell (%r,%r) is %r, expected %r "
                        "(original %r)" % (label, ref.obs[i], ref.samp[j], a,
                                           w, ref.rows[i][j]))
                if ref.rows[i][j] == 0 and a != 0:
                    bad("zero-cell-changed", "%s: zero cell (%r,%r) became "
                        "%r" % (label, ref.obs[i], ref.samp[j], a))
        nnz0 = sum(1 for r_ in ref.rows for x in r_ if x != 0)
        if r.nnz > nnz0:
            bad("density-increased", "%s: nnz %d -> %d" % (label, nnz0,
                                                           r.nnz))
        if not observe.md_equal(got["obs_md"], before["obs_md"]) or \
                not observe.md_equal(got["samp_md"], before["samp_md"]):
            bad("metadata-changed", "%s changed metadata" % label)
        return got

    if what == "transform":
        name = case["fn"]
        rec.cls("fn:" + name)
        if name in ("div_sum",) and any(x < 0 for r_ in ref.rows
                                        for x in r_):
            rec.skip("div_sum on negative values")
            return
        pure = user_fn(name)
        calls = []

        def spy(v, i, md):
            calls.append((sorted(np.array(v, dtype=float).tolist()), str(i),
                          observe.plain(md) if md is not None else None))
            return pure(v, str(i), md)
        if name == "by_id_defaults":
            # (the function handed over declares its parameters the way the
            # user's function does)
            spy3 = spy

            def spy(v, i=None, md=None):       # noqa: F811
                return spy3(v, i, md)
        r = t.transform(spy, axis, inplace) if case.get("positional") else \
            t.transform(spy, axis=axis, inplace=inplace)
        if sorted(c[1] for c in calls) != sorted(ids):
            bad("spy-ids", "function called for ids %r, axis ids %r" %
                ([c[1] for c in calls], ids))
        md = ref.md(axis)
        for vals, i, m in calls:
            k = ids.index(i)
            want = sorted(x for x in vecs[k] if x != 0)
            if vals != want:
                bad("spy-values", "function got %r for %r, its non-zero "
                    "values are %r" % (vals, i, want))
            wm = md[k] if md is not None else None
            if (m or None) != (wm or None):
                bad("spy-metadata", "function got metadata %r for %r, "
                    "expected %r" % (m, i, wm))
        want_v = [ref_vector(name, vecs[k], ids[k], ref.md_of(axis, k))
                  for k in range(len(ids))]
        expect(r, dense_from_vectors(ref, axis, want_v), "transform(%s)" %
               name, tol=(name == "div_sum"))
        if elementwise(name):
            # an element-wise function gives the same table on either axis
            other = "observation" if axis == "sample" else "sample"
            t2 = gen.build(case["table"])
            r2 = t2.transform(user_fn(name), axis=other, inplace=False)
            s1, s2 = observe.snapshot(r), observe.snapshot(r2)
            if s1["rows"] != s2["rows"]:
                bad("axis-dependence", "element-wise %s differs by axis: %r "
                    "vs %r" % (name, s1["rows"], s2["rows"]))
        rec.nt(nt)
        return

    if what == "norm":
        r = t.norm(axis, inplace) if case.get("positional") else \
            t.norm(axis=axis, inplace=inplace)
        want_v = []
        for v in vecs:
            s = sum(v)
            want_v.append([x / s for x in v] if s > 0 else list(v))
        got = expect(r, dense_from_vectors(ref, axis, want_v), "norm")
        gref = Ref.from_snapshot(got)
        for k, v in enumerate(gref.vectors(axis)):
            if sum(vecs[k]) > 0 and not math.isclose(math.fsum(v), 1.0,
                                                     rel_tol=1e-12):
                bad("norm-sum", "vector %r sums to %r" % (ids[k],
                                                          math.fsum(v)))
        rec.nt(nt)
        return

    if what == "pa":
        r = t.pa(inplace) if case.get("positional") else \
            t.pa(inplace=inplace)
        expect(r, [[1.0 if x != 0 else 0.0 for x in row]
                   for row in ref.rows], "pa")
        rec.nt(nt)
        return

    if what == "rankdata":
        import scipy.stats
        method = case["method"]
        rec.cls("rank:" + method)
        r = t.rankdata(axis, inplace, method) if case.get("positional") \
            else t.rankdata(axis=axis, inplace=inplace, method=method)
        want_v = []
        skip_cmp = set()
        # 'ordinal' ranks ties in their order of occurrence in the vector the
        # function is handed.  That is position order unless the kernel works
        # on the table's own arrays (layout already matches the axis) and
        # those arrays have unsorted indices (left behind by a reordering)
        own = {"observation": "csr", "sample": "csc"}[axis]
        storage_order_unknown = lay.get("format") == own and \
            lay.get("sorted") is False
        for k, v in enumerate(vecs):
            nzpos = [q for q, x in enumerate(v) if x != 0]
            nz = [v[q] for q in nzpos]
            out = [0.0] * len(v)
            if nz:
                if method == "ordinal" and len(set(nz)) != len(nz) and \
                        storage_order_unknown:
                    skip_cmp.add(k)   # tie order is storage order
                rk = scipy.stats.rankdata(nz, method=method)
                for q, x in zip(nzpos, rk):
                    out[q] = float(x)
            want_v.append(out)
        got = observe.snapshot(r)
        gref = Ref.from_snapshot(got)
        for k in skip_cmp:
            # with ties only the multiset of ranks is determined
            a = sorted(x for x in gref.vec(axis, k) if x != 0)
            w = sorted(x for x in want_v[k] if x != 0)
            if a != w:
                bad("rank", "ordinal ranks of %r are %r, expected the "
                    "multiset %r" % (ids[k], a, w))
            want_v[k] = gref.vec(axis, k)
        expect(r, dense_from_vectors(ref, axis, want_v), "rankdata(%s)" %
               method)
        rec.nt(nt)
        return

    if what == "cli":
        import h5py
        from biom import load_table
        from ..cli import command
        normalize_table = command("normalize-table")
        mode = case["mode"]
        with tempfile.TemporaryDirectory(prefix="vf-c13-", dir=TMP) as d:
            inp, out = os.path.join(d, "in.biom"), os.path.join(d, "out.biom")
            with h5py.File(inp, "w") as f:
                t.to_hdf5(f, "vf")
            if (len(ref.obs) + 2 * len(ref.samp)) % 3 == 0:
                # the result replaces the input file
                out = inp
                rec.cls("cli-output-over-input")
            from ..cli import invoke
            rc, out_ = invoke(normalize_table, "normalize-table",
                              ["-i", inp, "-o", out, mode, "-a", axis],
                              case.get("sub", False))
            if rc != 0:
                bad("cli-exit", "normalize-table exited %r: %s" %
                    (rc, out_[-300:]))
            got = observe.snapshot(load_table(out))
        if mode == "-p":
            want = [[1.0 if x != 0 else 0.0 for x in row] for row in ref.rows]
        else:
            wv = []
            for v in vecs:
                s = sum(v)
                wv.append([x / s for x in v] if s > 0 else list(v))
            want = dense_from_vectors(ref, axis, wv)
        if got["obs"] != ref.obs or got["samp"] != ref.samp or \
                got["rows"] != want:
            bad("cli", "normalize-table %s -a %s wrote %r / %r / %r, "
                "expected %r" % (mode, axis, got["obs"], got["samp"],
                                 got["rows"], want))
        rec.nt(len(ref.obs) != len(ref.samp) and has_zero and has_nz)
        return
    raise ValueError(what)


REGRESSIONS = [
    {"table": {"obs": ["o1", "o2"], "samp": ["s1", "s2", "s3"],
               "rows": [[1.0, 0.0, 3.0], [2.0, 2.0, 0.0]], "obs_md": None,
               "samp_md": None, "type": "OTU table", "form": "dense",
               "history": []},
     "what": "cli", "axis": "observation", "inplace": True, "mode": "-r",
     "sub": True},
]
