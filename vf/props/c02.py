"""C02 - the JSON (BIOM 1.0) writer emits well-formed JSON that reads back
exactly."""
import gzip
import io
import json
import os
import tempfile

import numpy as np
from hypothesis import strategies as st

from .. import gen, observe, ops
from ..core import Violation
from . import c01

ID = "C02"
LEVEL = "exploration"
RULE = ("table spec (wild float64 values; IDs, metadata strings, table id, "
        "type and generated-by over arbitrary Unicode incl. quotes, "
        "backslashes and control characters; metadata any JSON-representable "
        "value incl. nested lists/dicts, big ints, null and numpy scalars / "
        "arrays, heterogeneous across IDs) x form x history x reader "
        "{load_table plain/.gz, parse_table(StringIO), parse_table(list of "
        "chunks), Table.from_json(dict)}; oracle = stdlib json.loads + "
        "field-by-field expected document + read-back snapshot + streamed vs"
        " returned text; non-trivial = a non-zero with |v| < 1e-6 or not "
        "representable in 6 decimals, or a string needing JSON escaping, or "
        "nested / numpy metadata; distinct = canonical hash")
BUDGET = {"quick": {"shards": 16, "examples": 250},
          "thorough": {"shards": 16, "examples": 6000}}
ASSUMPTIONS = ["stdlib json is the independent parser",
               "'same document' for the streamed writer means JSON equality "
               "(member order of an object is not significant)"]

TMP = c01.TMP

ANYTEXT = st.one_of(
    st.text(max_size=8),
    st.text('"\\/\b\f\n\r\t\x01\x1f\x7f é{}[]:,', max_size=6),
    st.sampled_from(['"', "\\", 'a"b', "a\\b", "\\\"", "\n", "é\t", "{", "]",
                     '":', "null", ""]))
ANYTEXT1 = ANYTEXT.filter(lambda s: len(s) > 0)

JSON_ID = st.one_of(
    gen.id_text("unicode"),
    st.text('"\\/\b\f\n\r\t\x01\x1f{}[]:,ab', min_size=1, max_size=6))

NP_KINDS = ["np.int32", "np.int64", "np.float32", "np.float64", "np.bool_",
            "np.array_int", "np.array_float", "np.uint8"]


def json_scalars():
    return st.one_of(
        st.none(), st.booleans(), st.integers(-10, 10),
        st.integers(-2 ** 70, 2 ** 70),
        st.floats(allow_nan=False, allow_infinity=False), ANYTEXT)


def json_values():
    """Plain-data description of a metadata value; numpy values are tagged
    {"__np__": kind, "v": ...} and realised by `realise`."""
    nps = st.one_of(
        st.builds(lambda v: {"__np__": "np.int32", "v": v},
                  st.integers(-2 ** 31, 2 ** 31 - 1)),
        st.builds(lambda v: {"__np__": "np.int64", "v": v},
                  st.integers(-2 ** 63, 2 ** 63 - 1)),
        st.builds(lambda v: {"__np__": "np.uint8", "v": v},
                  st.integers(0, 255)),
        st.builds(lambda v: {"__np__": "np.float32", "v": v},
                  st.floats(allow_nan=False, allow_infinity=False, width=32)),
        st.builds(lambda v: {"__np__": "np.float64", "v": v},
                  st.floats(allow_nan=False, allow_infinity=False)),
        st.builds(lambda v: {"__np__": "np.bool_", "v": v}, st.booleans()),
        st.builds(lambda v: {"__np__": "np.array_int", "v": v},
                  st.lists(st.integers(-100, 100), max_size=3)),
        st.builds(lambda v: {"__np__": "np.array_float", "v": v},
                  st.lists(st.floats(allow_nan=False, allow_infinity=False),
                           max_size=3)),
    )
    return st.recursive(
        st.one_of(json_scalars(), nps),
        lambda ch: st.one_of(
            st.lists(ch, max_size=3),
            st.dictionaries(ANYTEXT.filter(lambda k: k != "__np__"), ch,
                            max_size=3)),
        max_leaves=6)


def realise(v):
    """Description -> the Python/numpy object handed to the table."""
    if isinstance(v, dict):
        if "__np__" in v:
            k, x = v["__np__"], v["v"]
            if k == "np.array_int":
                return np.asarray(x, dtype=np.int64)
            if k == "np.array_float":
                return np.asarray(x, dtype=np.float64)
            return getattr(np, k[3:])(x)
        return {k: realise(x) for k, x in v.items()}
    if isinstance(v, list):
        return [realise(x) for x in v]
    return v


def expected(v):
    """Description -> the value a JSON reader must see."""
    if isinstance(v, dict):
        if "__np__" in v:
            k, x = v["__np__"], v["v"]
            if k == "np.float32":
                return float(np.float32(x))
            if k in ("np.array_int", "np.array_float"):
                return [float(e) if k.endswith("float") else int(e)
                        for e in x]
            return x
        return {k: expected(x) for k, x in v.items()}
    if isinstance(v, list):
        return [expected(x) for x in v]
    return v


@st.composite
def json_md(draw, n):
    if draw(st.integers(0, 2)) == 0:
        return None
    if draw(st.integers(0, 5)) == 0:
        # records that compare equal although they are not the same data
        # (1 == 1.0 == True, 0 == 0.0 == False): each ID keeps its own
        pool = draw(st.sampled_from([[1, 1.0, True], [0, 0.0, False],
                                     [[1, 2], [1.0, 2.0], [True, 2]],
                                     [{"a": 1}, {"a": 1.0}, {"a": True}]]))
        key = draw(st.sampled_from(["k", "chimeric", "a b"]))
        return [{key: draw(st.sampled_from(pool))} for _ in range(n)]
    out = []
    for _ in range(n):
        out.append(draw(st.dictionaries(
            st.one_of(st.sampled_from(["k", "taxonomy", "a b"]),
                      ANYTEXT.filter(lambda k: k != "__np__")),
            json_values(), max_size=3)))
    if not any(out):
        return None
    return out


@st.composite
def cases(draw, tier):
    n, m = draw(gen.shapes(tier))
    spec = {
        "obs": draw(st.lists(JSON_ID, min_size=n, max_size=n, unique=True)),
        "samp": draw(st.lists(JSON_ID, min_size=m, max_size=m, unique=True)),
        "rows": draw(gen.matrices(n, m, draw(st.sampled_from(
            ["wild", "wild", "dyadic", "count"])))),
        "obs_md": draw(json_md(n)), "samp_md": draw(json_md(m)),
        "type": draw(st.one_of(st.none(), st.sampled_from(gen.TYPES),
                               ANYTEXT1)),
        "table_id": draw(st.one_of(st.none(), ANYTEXT1)),
        "form": draw(st.sampled_from(gen.FORMS + gen.FORMS_F32[1:2])),
        "history": draw(ops.histories("any", poke=True)),
    }
    if draw(st.sampled_from([False] * 29 + [True])):
        # one axis past 256 entries (block-wise writers / readers)
        spec = draw(gen.big_specs(md="simple", values="dyadic"))
        spec["table_id"] = None
    return {"table": spec, "generated_by": draw(ANYTEXT1),
            "date": c01.date_to_json(draw(c01.DATES)),
            "reader": draw(st.sampled_from(["load_table", "load_table_gz",
                                            "parse_stringio", "parse_chunks",
                                            "parse_lines", "from_json"])),
            "chunk": draw(st.integers(1, 40))}


def strategy(tier):
    return cases(tier)


def build(spec, rec=None):
    s = dict(spec)
    for k in ("obs_md", "samp_md"):
        if s.get(k) is not None:
            s[k] = [realise(m) for m in s[k]]
    return gen.build(s, rec=rec)


def _loaded_twice(loader):
    """Load, edit what was loaded in place, load again: the second table is
    what the file holds (a loader hands out a table of the caller's own)."""
    first = loader()
    if not first.is_empty():
        first.transform(lambda v, i, md: v * 2 + 1, axis="observation",
                        inplace=True)
        first.transform(lambda v, i, md: v * 2 + 1, axis="sample",
                        inplace=True)
    return loader()


def _parse_list(parts):
    """Parse a caller-owned list; it must be left as it was."""
    from biom.parse import parse_biom_table
    held = list(parts)
    t = parse_biom_table(parts)
    if parts != held:
        raise Violation("input-modified", "parse_biom_table changed the "
                        "list it was given")
    return t


def read(text, case, d):
    from biom import load_table, Table
    from biom.parse import parse_biom_table
    how = case["reader"]
    if how in ("load_table", "load_table_gz"):
        # a gzip-compressed document is one by content, whatever it is named
        names = ["t.biom.gz", "t.biom", "t.json.GZ", "t.gz.biom", "t"] \
            if how.endswith("gz") else ["t.biom", "t.json", "t.txt", "t"]
        p = os.path.join(d, names[(case.get("chunk", 0) // 3) % len(names)])
        opener = (lambda: gzip.open(p, "wt", encoding="utf8")) \
            if how.endswith("gz") else \
            (lambda: open(p, "w", encoding="utf8"))
        if case.get("chunk", 0) % 3 == 0:
            # the path held a different document a moment ago (and was
            # loaded): what is read now must be what the path holds now
            other = Table(np.array([[5.0, 0.0], [0.0, 7.0]]),
                          ["earlier-o1", "earlier-o2"],
                          ["earlier-s1", "earlier-s2"])
            # ... sometimes in the other compression form
            flip = case.get("chunk", 0) % 6 == 0
            op_ = ((lambda: open(p, "w", encoding="utf8"))
                   if how.endswith("gz") else
                   (lambda: gzip.open(p, "wt", encoding="utf8"))) \
                if flip else opener
            with op_() as f:
                f.write(other.to_json("earlier"))
            load_table(p)
            os.remove(p)
        with opener() as f:
            f.write(text)
        if case.get("chunk", 0) % 2:
            return _loaded_twice(lambda: load_table(p))
        return load_table(p)
    if how == "parse_stringio":
        return parse_biom_table(io.StringIO(text))
    if how == "parse_lines":
        # the lines of the text, as str.splitlines() gives them
        return _parse_list(text.splitlines())
    if how == "parse_chunks":
        k = case["chunk"]
        return _parse_list([text[i:i + k] for i in range(0, len(text), k)])
    # the parsed document is the caller's: unchanged by the call, and good
    # for a second one
    doc = json.loads(text)
    held = json.loads(text)
    first = Table.from_json(doc)
    if doc != held:
        raise Violation("input-modified", "Table.from_json changed the "
                        "document it was given")
    return Table.from_json(doc) if case.get("chunk", 0) % 2 else first


def _needs_escape(s):
    return any(c in '"\\' or ord(c) < 0x20 for c in s)


def _strings(v):
    if isinstance(v, str):
        yield v
    elif isinstance(v, dict):
        for k, x in v.items():
            yield k
            yield from _strings(x)
    elif isinstance(v, list):
        for x in v:
            yield from _strings(x)


def check(case, rec):
    spec = case["table"]
    t = build(spec, rec=rec)
    src = observe.snapshot(t)
    if not observe.all_finite(src):
        rec.skip("history overflowed to a non-finite value")
        return
    lay = observe.layout(t)
    rec.cls("reader:" + case["reader"])
    rec.cls("unsorted", lay.get("sorted") is False)
    rec.cls("fmt:%s" % lay.get("format"))
    date = c01.date_from_json(case["date"])
    gby = case["generated_by"]
    sio = io.StringIO()
    if case.get("chunk", 0) % 5 == 2:
        # to_json(generated_by, direct_io, creation_date), positionally
        text = t.to_json(gby, None, date)
        ret = t.to_json(gby, sio, date)
        rec.cls("to_json-called-positionally")
    else:
        text = t.to_json(gby, creation_date=date)
        ret = t.to_json(gby, direct_io=sio, creation_date=date)
    streamed = sio.getvalue()

    def bad(sub, msg):
        raise Violation(sub, msg)

    # (1) well-formed
    try:
        doc = json.loads(text)
    except ValueError as e:
        bad("malformed-json", "%s in %r" % (e, text[:300]))
    try:
        doc_io = json.loads(streamed)
    except ValueError as e:
        bad("malformed-json-direct-io", "%s in %r" % (e, streamed[:300]))
    # (4) streamed form emits the same document
    if doc_io != doc:
        bad("direct-io-differs", "streamed %r vs returned %r" %
            (doc_io, doc))

    # (2) the document says what the table holds
    n, m = len(src["obs"]), len(src["samp"])
    if [r.get("id") for r in doc.get("rows", [])] != src["obs"]:
        bad("doc-rows", "row ids %r != %r" % (doc.get("rows"), src["obs"]))
    if [c.get("id") for c in doc.get("columns", [])] != src["samp"]:
        bad("doc-columns", "column ids %r != %r" % (doc.get("columns"),
                                                     src["samp"]))
    # the table's metadata is the *realised* description (numpy objects);
    # what a JSON reader must see is expected(description), and a history
    # may have reordered / filtered IDs, so go through the ids
    exp_md = {}
    for key, mk in (("obs", "obs_md"), ("samp", "samp_md")):
        if src[mk] is None:
            exp_md[key] = None
        else:
            exp_md[key] = [json.loads(json.dumps(observe.plain(x)))
                           for x in src[mk]]
    for key, field in (("obs", "rows"), ("samp", "columns")):
        got = [e.get("metadata") for e in doc[field]]
        want = exp_md[key]
        if want is None:
            if any(g for g in got):
                bad("doc-metadata", "%s metadata %r, table has none" %
                    (field, got))
        elif not observe.same_data([g or {} for g in got],
                                   [w or {} for w in want]):
            bad("doc-metadata", "%s metadata %r != %r" % (field, got, want))
    if doc.get("shape") != [n, m]:
        bad("doc-shape", "%r != %r" % (doc.get("shape"), [n, m]))
    if doc.get("type") != src["type"]:
        bad("doc-type", "%r != %r" % (doc.get("type"), src["type"]))
    if doc.get("generated_by") != gby:
        bad("doc-generated-by", "%r != %r" % (doc.get("generated_by"), gby))
    if doc.get("date") != date.isoformat():
        bad("doc-date", "%r != %r" % (doc.get("date"), date.isoformat()))
    # (the table's own id: a history that reloads the table from JSON drops
    # it, which the statement does not cover)
    if doc.get("id") != str(src["table_id"]):
        bad("doc-id", "%r != %r" % (doc.get("id"), str(src["table_id"])))
    if doc.get("matrix_type") != "sparse":
        bad("doc-matrix-type", repr(doc.get("matrix_type")))
    if doc.get("format_url") != "http://biom-format.org":
        bad("doc-format-url", repr(doc.get("format_url")))
    cells = {}
    for trip in doc.get("data", []):
        if not (isinstance(trip, list) and len(trip) == 3):
            bad("doc-data", "bad triple %r" % (trip,))
        r, c, v = trip
        if (r, c) in cells:
            bad("doc-data", "cell %r listed twice" % ((r, c),))
        cells[(r, c)] = v
    want_cells = {(i, j): src["rows"][i][j] for i in range(n)
                  for j in range(m) if src["rows"][i][j] != 0}
    if cells != want_cells:
        diff = {k: (cells.get(k), want_cells.get(k))
                for k in set(cells) | set(want_cells)
                if cells.get(k) != want_cells.get(k)}
        bad("doc-data", "triples differ from the non-zero cells "
            "(cell: (written, true)): %r" % (diff,))

    # (1b) the same writer behind `biom convert --to-json`: the output file
    # holds one well-formed document describing the same table, also when the
    # output path held something longer before
    if case.get("chunk", 0) % 4 == 1:
        from ..cli import command, invoke
        with tempfile.TemporaryDirectory(prefix="vf-c02-", dir=TMP) as d:
            src_p, out_p = os.path.join(d, "in.biom"), \
                os.path.join(d, "out.biom")
            with open(src_p, "w", encoding="utf8") as f:
                f.write(text)
            if case.get("chunk", 0) % 8 == 1:
                with open(out_p, "w", encoding="utf8") as f:
                    f.write("stale output of an earlier run\n" * 4000)
                rec.cls("cli-output-path-held-a-longer-file")
            rc, out_ = invoke(command("convert"), "convert",
                              ["-i", src_p, "-o", out_p, "--to-json"])
            if rc != 0:
                bad("cli-exit", "convert --to-json exited %r: %s" %
                    (rc, out_[-300:]))
            with open(out_p, encoding="utf8") as f:
                cli_text = f.read()
        try:
            doc2 = json.loads(cli_text)
        except ValueError as e:
            bad("malformed-json-cli", "%s in %r ... %r" %
                (e, cli_text[:200], cli_text[-120:]))
        for field in ("rows", "columns"):
            if [e.get("id") for e in doc2.get(field, [])] != \
                    [e.get("id") for e in doc[field]]:
                bad("cli-doc-ids", "%s of the converted file %r" %
                    (field, doc2.get(field)))
        if doc2.get("shape") != doc["shape"] or \
                sorted(map(tuple, doc2.get("data", []))) != \
                sorted(map(tuple, doc["data"])):
            bad("cli-doc-data", "converted file holds %r / %r, document "
                "%r / %r" % (doc2.get("shape"), doc2.get("data"),
                             doc["shape"], doc["data"]))
        if doc["type"] not in (None, "None", "") and \
                doc2.get("type") != doc["type"]:
            bad("cli-doc-type", "converted file says type %r, the table's "
                "type is %r" % (doc2.get("type"), doc["type"]))
        rec.cls("writer:convert-command")

    # (3) reading back
    with tempfile.TemporaryDirectory(prefix="vf-c02-", dir=TMP) as d:
        r = read(text, case, d)
    got = observe.snapshot(r)
    observe.check_lookups(r, got, "loaded table")
    if got["obs"] != src["obs"] or got["samp"] != src["samp"]:
        bad("readback-ids", "%r/%r != %r/%r" % (got["obs"], got["samp"],
                                                src["obs"], src["samp"]))
    if got["rows"] != src["rows"]:
        bad("readback-values", "%r != %r" % (got["rows"], src["rows"]))
    for key in ("obs", "samp"):
        g = observe.norm_md(got[key + "_md"])
        w = observe.norm_md(exp_md[key])
        if not observe.same_data(g, w):
            bad("readback-metadata", "%s: %r != %r" % (key, g, w))
    if got["type"] != src["type"]:
        bad("readback-type", "%r != %r" % (got["type"], src["type"]))
    if r.generated_by != gby:
        bad("readback-generated-by", "%r != %r" % (r.generated_by, gby))
    if r.create_date != date:
        bad("readback-date", "%r != %r" % (r.create_date, date))

    vals = [x for row in src["rows"] for x in row if x != 0]
    strs = list(src["obs"]) + list(src["samp"]) + [gby] + \
        [s for s in (src["type"], spec.get("table_id")) if s]
    for mk in ("obs_md", "samp_md"):
        for e in spec.get(mk) or []:
            strs.extend(_strings(expected(e)))
    small = any(abs(v) < 1e-6 or float("%f" % v) != v for v in vals)
    esc = any(_needs_escape(s) for s in strs)
    nested = any(isinstance(x, (dict, list)) for mk in ("obs_md", "samp_md")
                 for e in (spec.get(mk) or []) for x in e.values())
    rec.cls("value-needs-more-than-%f", small)
    rec.cls("string-needs-escaping", esc)
    rec.cls("nested-or-numpy-metadata", nested)
    rec.nt(small or esc or nested)


REGRESSIONS = [
    {"table": {"obs": ["o\"1"], "samp": ["s\\1", "s2"],
               "rows": [[1e-7, 0.0]], "obs_md": None,
               "samp_md": [{"k": {"__np__": "np.bool_", "v": True}}, {}],
               "type": "a\"b", "table_id": "x\\", "form": "dense",
               "history": []},
     "generated_by": "g\"", "date": "2020-01-02T03:04:05",
     "reader": "parse_stringio", "chunk": 7},
    {"table": {"obs": ["a", "b"], "samp": ["x"], "rows": [[0.0], [0.0]],
               "obs_md": None, "samp_md": None, "type": None,
               "table_id": None, "form": "dense", "history": []},
     "generated_by": "vf", "date": "2020-01-02T03:04:05",
     "reader": "from_json", "chunk": 5},
]
