"""C11 - partition is an exact split; collapse conserves what it
aggregates."""
import math
import zlib

import numpy as np
from hypothesis import strategies as st

from .. import gen, ops, observe
from ..model import Ref, agree
from ..core import Violation

ID = "C11"
LEVEL = "exploration"
RULE = ("table (integer / dyadic values, metadata) x history x axis x "
        "{partition(f | dict in both accepted forms, remove_empty, "
        "ignore_none), collapse(f, norm, min_group_size, "
        "include_collapsed_metadata), collapse(one_to_many, add | divide)} "
        "with labellers from a finite named family (id hash mod k, metadata "
        "value, constant, injective, list-valued, None-for-some) and pathway "
        "generators yielding 0..3 (pathway, bin) pairs per vector with "
        "duplicates; oracle = dense model written from the statement; "
        "non-trivial = >= 2 groups one of which has >= 2 members (one-to-many:"
        " a vector with >= 2 bins) on a table with >= 1 non-zero; distinct = "
        "canonical hash")
BUDGET = {"quick": {"shards": 16, "examples": 250},
          "thorough": {"shards": 16, "examples": 5000}}
ASSUMPTIONS = ["order of the collapsed IDs is not part of the property",
               "divisions by a member/bin count are compared with "
               "rel_tol=1e-12, everything else with =="]


def h(s, salt=0):
    return zlib.crc32(("%s|%d" % (s, salt)).encode("utf8"))


LAB = st.one_of(
    st.builds(lambda k, s: {"kind": "id_mod", "k": k, "salt": s},
              st.sampled_from([2, 3]), st.integers(0, 5)),
    st.builds(lambda k: {"kind": "md", "key": k},
              st.sampled_from(["grp", "k"])),
    st.just({"kind": "const"}),
    st.just({"kind": "injective"}),
    st.builds(lambda s: {"kind": "list_valued", "salt": s},
              st.integers(0, 5)),
    st.builds(lambda s: {"kind": "none_some", "salt": s}, st.integers(0, 5)),
    st.builds(lambda s: {"kind": "falsy", "salt": s}, st.integers(0, 5)),
    st.builds(lambda k, s, m: {"kind": "dict_id2grp", "k": k, "salt": s,
                               "missing": m},
              st.sampled_from([1, 2, 3]), st.integers(0, 5), ops.MASK),
    st.builds(lambda k, s, m, tup: {"kind": "dict_grp2ids", "k": k, "salt": s,
                                    "missing": m, "tuple": tup},
              st.sampled_from([1, 2, 3]), st.integers(0, 5), ops.MASK,
              st.booleans()),
)


# ordered list labels (rank-ordered lineages are not alphabetical); two of
# them hold the same elements in a different order and are different labels
_LISTS = [["k__z", "p__b", "c__a"], ["p__b", "k__z", "c__a"], ["k__z", "a"]]


def label_of(lab, i, md):
    """The label the statement assigns to (id, metadata) - model side."""
    k = lab["kind"]
    if k == "id_mod":
        return "g%d" % (h(i, lab["salt"]) % lab["k"])
    if k == "md":
        return "md:%s" % (md.get(lab["key"]) if md is not None else None)
    if k == "const":
        return "all"
    if k == "injective":
        return "G:" + i
    if k == "list_valued":
        return tuple(_LISTS[h(i, lab["salt"]) % len(_LISTS)])
    if k == "none_some":
        return None if h(i, lab["salt"]) % 2 else "kept"
    if k == "falsy":
        # falsy labels that are not None: 0, the empty string, an empty tuple
        return [0, "", (), None, "x"][h(i, lab["salt"]) % 5]
    raise ValueError(k)


def labeller(lab, ids):
    """The argument handed to the real API, and the model labelling."""
    k = lab["kind"]
    if k in ("dict_id2grp", "dict_grp2ids"):
        mk = ops.mask_for(len(ids), lab["missing"])
        mapping = {i: "g%d" % (h(i, lab["salt"]) % lab["k"])
                   for i, keep in zip(ids, mk) if keep}
        model = lambda i, md: mapping.get(i)
        if k == "dict_id2grp":
            return dict(mapping), model
        groups = {}
        for i, g in mapping.items():
            groups.setdefault(g, []).append(i)
        if lab["salt"] % 2:
            # the lists say which IDs belong to a group, in any order, and
            # may name IDs this table does not hold
            groups = {g: ["not-in-this-table-" + g] + v[::-1]
                      for g, v in groups.items()}
        if lab["tuple"]:
            groups = {g: tuple(v) for g, v in groups.items()}
        return groups, model
    if k == "list_valued":
        f = lambda i, md: list(_LISTS[h(str(i), lab["salt"]) % len(_LISTS)])
    else:
        f = lambda i, md: label_of(lab, str(i), md)
    return f, (lambda i, md: label_of(lab, i, md))


@st.composite
def cases(draw, tier):
    values = draw(st.sampled_from(["int", "dyadic", "count", "posint"]))
    spec = draw(gen.table_specs(tier, values=values, md=True, history=True,
                                history_kind="any"))
    # make sure the axes carry the keys the labellers use
    for key, ids in (("obs_md", spec["obs"]), ("samp_md", spec["samp"])):
        if draw(st.booleans()):
            spec[key] = [{"grp": draw(st.sampled_from(["x", "y", "z"])),
                          "k": draw(st.sampled_from(["a", "b"])),
                          "uid": i} for i in ids]
            if draw(st.sampled_from([False, False, True])):
                # the table is itself the result of an earlier collapse:
                # every ID already lists what *it* was collapsed from
                for m_, i in zip(spec[key], ids):
                    m_["collapsed_ids"] = ["was-" + i, "and-" + i]
    spec["history"] = [o for o in spec["history"]
                       if o["op"] not in ("transpose", "rename")]
    if (3 * len(spec["obs"]) + len(spec["samp"])) % 5 == 0:
        # group totals far below 1 (a power of two keeps sums and means
        # exact): nothing may be rounded away as "residue"
        spec["rows"] = [[x * 2.0 ** -40 for x in r] for r in spec["rows"]]
        spec["history"] = [o for o in spec["history"]
                           if o["op"] != "subsample"]
    what = draw(st.sampled_from(["partition", "partition", "collapse",
                                 "collapse", "one_to_many"]))
    case = {"table": spec, "axis": draw(ops.AX), "what": what,
            "lab": draw(LAB)}
    if what == "partition":
        case["remove_empty"] = draw(st.booleans())
        case["ignore_none"] = draw(st.booleans())
    elif what == "collapse":
        case["norm"] = draw(st.booleans())
        case["min_group_size"] = draw(st.sampled_from([1, 1, 2, 3]))
        case["include_md"] = draw(st.booleans())
    else:
        case["mode"] = draw(st.sampled_from(["add", "divide"]))
        case["nbins"] = draw(st.integers(1, 3))
        case["salt"] = draw(st.integers(0, 9))
        case["include_md"] = draw(st.booleans())
        case["md_key"] = draw(st.sampled_from(["Path", "KEGG"]))
    return case


def strategy(tier):
    return cases(tier)


def close(a, b):
    return a == b or math.isclose(a, b, rel_tol=1e-12, abs_tol=0.0)


def pairs_for(case, i):
    """(pathway, bin) pairs the pathway generator yields for vector id i."""
    n = h(i, case["salt"]) % 4
    out = []
    for j in range(n):
        # (bin names whose natural order is not their text order too)
        pool = [["b0", "b1", "b2"], ["K2", "K10", "K1"], ["9", "10", "100"],
                ["b", "B", "a"]][case["salt"] % 4]
        b = pool[h("%s#%d" % (i, j), case["salt"]) % case["nbins"]]
        out.append((["path", b], b))
    return out


def _pathways_from_metadata(i, md):
    """A module-level pathway function (the same function object for every
    call) that reads the groups of a vector from its metadata."""
    return iter([(["path", b], b) for b in (md or {}).get("pw", [])])


def _same_function_other_pathways(t, axis, rec):
    """collapse(one_to_many) twice with the same function on tables with the
    same IDs whose metadata names different groups: each result lists the
    groups of *its* table."""
    ids = [str(i) for i in t.ids(axis=axis)]
    for rnd, names in enumerate((["g0", "g1"], ["h0", "h1", "h2"])):
        u = t.copy()
        u.add_metadata({i: {"pw": [names[(k + q) % len(names)]
                                   for q in range(1 + k % 2)]}
                        for k, i in enumerate(ids)}, axis=axis)
        want = sorted({names[(k + q) % len(names)]
                       for k in range(len(ids)) for q in range(1 + k % 2)})
        r = u.collapse(_pathways_from_metadata, one_to_many=True, norm=False,
                       axis=axis, one_to_many_md_key="pw")
        got = sorted(str(i) for i in r.ids(axis=axis))
        if got != want:
            raise Violation("one-to-many-ids", "the same pathway function on "
                            "a table whose metadata names the groups %r gave "
                            "the groups %r (call %d)" % (want, got, rnd + 1))
    rec.cls("one-to-many:same-function-other-pathways")


class _Quiet:
    def cls(self, *a, **k):
        pass

    def skip(self, *a, **k):
        pass

    def nt(self, *a, **k):
        pass


def check(case, rec):
    t = gen.build(case["table"], rec=rec)
    _check(case, rec, t)
    if not t.is_empty() and len(case["table"]["obs"]) % 3 == 0 and \
            len(case["table"]["obs"]) < 100:
        # partitioned / collapsed again after in-place edits of the values
        t.transform(lambda v, i, md: v * 2, axis="observation", inplace=True)
        rec.cls("asked-again-after-in-place-edits")
        try:
            _check(case, _Quiet(), t)
        except Violation as v:
            raise Violation(v.sub, "asked again after doubling the values "
                            "in place: " + v.msg)


def _check(case, rec, t):
    axis, what = case["axis"], case["what"]
    inv = "observation" if axis == "sample" else "sample"
    before = observe.snapshot(t)
    ref = Ref.from_snapshot(before)
    ids = ref.ids(axis)
    lay = observe.layout(t)
    rec.cls("unsorted", lay.get("sorted") is False)
    rec.cls("what:" + what)
    has_nz = any(x != 0 for row in ref.rows for x in row)

    def bad(sub, msg):
        raise Violation(sub, "%s [%s axis=%s lab=%r; table %r]" %
                        (msg, what, axis, case["lab"], ref.as_dict()))

    if what == "one_to_many":
        if ref.md(axis) is None:
            rec.skip("one-to-many needs metadata on the axis")
            return
        allp = {i: pairs_for(case, i) for i in ids}
        bins = sorted({b for ps in allp.values() for _, b in ps})
        if not bins:
            rec.skip("no bin overall")
            return

        def gen_f(i, md):
            return iter(pairs_for(case, str(i)))
        if case["salt"] % 3 == 0 and not t.is_empty():
            _same_function_other_pathways(t, axis, rec)
        r = t.collapse(gen_f, one_to_many=True, norm=False,
                       one_to_many_mode=case["mode"], axis=axis,
                       one_to_many_md_key=case["md_key"],
                       include_collapsed_metadata=case["include_md"])
        got = observe.snapshot(r)
        observe.check_lookups(r, got, "one-to-many collapse result")
        akey, ikey = ("samp", "obs") if axis == "sample" else ("obs", "samp")
        if sorted(got[akey]) != bins or len(set(got[akey])) != len(bins):
            bad("one-to-many-ids", "%s ids %r, expected bins %r" %
                (axis, got[akey], bins))
        if got[ikey] != ref.ids(inv):
            bad("one-to-many-other-axis", "%r != %r" % (got[ikey],
                                                        ref.ids(inv)))
        n_inv = len(ref.ids(inv))
        exp = {b: [0.0] * n_inv for b in bins}
        mag = {b: [0.0] * n_inv for b in bins}   # sum of |contributions|
        for k, i in enumerate(ids):
            v = ref.vec(axis, k)
            ps = allp[i]
            for _, b in ps:
                for q in range(n_inv):
                    c = v[q] if case["mode"] == "add" else v[q] / len(ps)
                    exp[b][q] += c
                    mag[b][q] += abs(c)
        for pos, b in enumerate(got[akey]):
            have = [row[pos] for row in got["rows"]] if axis == "sample" \
                else got["rows"][pos]
            # 'divide' adds non-dyadic quotients in an unspecified order:
            # compare within rounding noise of the summands' magnitude
            ok = all((a == w) if case["mode"] == "add" else
                     abs(a - w) <= 1e-12 * max(mg, 1e-300)
                     for a, w, mg in zip(have, exp[b], mag[b]))
            if not ok:
                bad("one-to-many-values", "bin %r holds %r, expected %r" %
                    (b, have, exp[b]))
        if case["mode"] == "divide":
            for q in range(n_inv):
                have = sum((row[q] if axis != "sample" else 0) for row in [])
            tot_have = [sum(exp[b][q] for b in bins) for q in range(n_inv)]
            tot_src = [sum(ref.vec(axis, k)[q] for k, i in enumerate(ids)
                           if allp[i]) for q in range(n_inv)]
            tot_mag = [sum(mag[b][q] for b in bins) for q in range(n_inv)]
            for a, w, mg in zip(tot_have, tot_src, tot_mag):
                if abs(a - w) > 1e-12 * max(mg, 1e-300):
                    bad("one-to-many-totals", "divide does not conserve "
                        "totals: %r vs %r" % (tot_have, tot_src))
        if case["include_md"]:
            gmd = got[akey + "_md"]
            for pos, b in enumerate(got[akey]):
                m = gmd[pos] if gmd else None
                if not m or m.get(case["md_key"]) != ["path", b]:
                    bad("one-to-many-metadata", "bin %r metadata %r" % (b, m))
        if observe.snapshot(t) != before:
            bad("receiver-modified", "collapse changed its receiver")
        rec.nt(has_nz and any(len(p) >= 2 for p in allp.values()))
        return

    arg, model_lab = labeller(case["lab"], ids)
    rec.cls("lab:" + case["lab"]["kind"])
    labels = [model_lab(i, ref.md_of(axis, k)) for k, i in enumerate(ids)]
    groups = {}
    for k, lb in enumerate(labels):
        groups.setdefault(lb, []).append(k)
    multi = len(groups) >= 2 and any(len(v) >= 2 for v in groups.values())

    if what == "partition":
        if case["lab"]["kind"] == "md" and ref.md(axis) is None:
            rec.skip("metadata labeller without metadata")
            return
        if case["lab"].get("salt", 0) % 3 == 2:
            # partition(f, axis, remove_empty, ignore_none), positionally
            parts = list(t.partition(arg, axis, case["remove_empty"],
                                     case["ignore_none"]))
        else:
            parts = list(t.partition(arg, axis=axis,
                                     remove_empty=case["remove_empty"],
                                     ignore_none=case["ignore_none"]))
        exp_groups = {lb: idx for lb, idx in groups.items()
                      if not (case["ignore_none"] and lb is None)}
        got_labels = [p[0] for p in parts]
        if len(set(got_labels)) != len(got_labels) or \
                set(got_labels) != set(exp_groups):
            bad("partition-labels", "labels %r, expected %r" %
                (got_labels, sorted(map(repr, exp_groups))))
        covered = []
        for lb, pt in parts:
            exp = ref.take(axis, exp_groups[lb])
            if case["remove_empty"]:
                exp = exp.remove_empty("whole")
            snap = observe.snapshot(pt)
            observe.check_lookups(pt, snap, "part %r" % (lb,))
            msg = agree(snap, exp, "part %r" % (lb,))
            if msg:
                bad("partition-part", msg)
            if pt.type != t.type:
                bad("partition-type", "part type %r, table type %r" %
                    (pt.type, t.type))
            covered.extend(snap["samp"] if axis == "sample" else snap["obs"])
            for k2, i2 in enumerate(snap["samp" if axis == "sample"
                                         else "obs"]):
                if pt.index(i2, axis) != k2:
                    bad("partition-index", "part %r: index(%r) wrong" %
                        (lb, i2))
        if not case["remove_empty"]:
            want_cov = sorted(ids[k] for idx in exp_groups.values()
                              for k in idx)
            if sorted(covered) != want_cov:
                bad("partition-cover", "parts cover %r, expected each of %r "
                    "once" % (sorted(covered), want_cov))
        if observe.snapshot(t) != before:
            bad("receiver-modified", "partition changed its receiver")
        rec.nt(has_nz and multi)
        return

    # one-to-one collapse
    if case["lab"]["kind"] in ("list_valued", "falsy"):
        rec.skip("label cannot become an ID")
        return
    if case["lab"]["kind"] == "md" and ref.md(axis) is None:
        rec.skip("metadata labeller without metadata")
        return
    # vectors labelled None (a function returning None, a mapping that omits
    # an ID) form a group like any other; its ID prints as 'None'
    has_none = any(lb is None for lb in labels)
    rec.cls("collapse-with-None-group", has_none)
    if has_none and "None" in groups:
        rec.skip("labels None and 'None' together")
        return
    r = t.collapse(arg, norm=case["norm"], axis=axis,
                   min_group_size=case["min_group_size"],
                   include_collapsed_metadata=case["include_md"])
    got = observe.snapshot(r)
    if not has_none:
        observe.check_lookups(r, got, "collapse result")
    akey, ikey = ("samp", "obs") if axis == "sample" else ("obs", "samp")
    exp_groups = {("None" if lb is None else lb): idx
                  for lb, idx in groups.items()
                  if len(idx) >= case["min_group_size"]}
    if sorted(got[akey]) != sorted(exp_groups) or \
            len(set(got[akey])) != len(got[akey]):
        bad("collapse-ids", "%s ids %r, expected %r" %
            (axis, got[akey], sorted(exp_groups)))
    if exp_groups and got[ikey] != ref.ids(inv):
        bad("collapse-other-axis", "%r != %r" % (got[ikey], ref.ids(inv)))
    n_inv = len(ref.ids(inv))
    for pos, lb in enumerate(got[akey]):
        idx = exp_groups[lb]
        want = [sum(ref.vec(axis, k)[q] for k in idx) for q in range(n_inv)]
        if case["norm"]:
            want = [w / len(idx) for w in want]
        have = [row[pos] for row in got["rows"]] if axis == "sample" \
            else got["rows"][pos]
        if not all(close(a, w) for a, w in zip(have, want)):
            bad("collapse-values", "group %r holds %r, expected %r "
                "(members %r)" % (lb, have, want, [ids[k] for k in idx]))
        gmd = got[akey + "_md"]
        m = gmd[pos] if gmd is not None else None
        if case["include_md"]:
            if not m or m.get("collapsed_ids") != [ids[k] for k in idx]:
                bad("collapse-metadata", "group %r collapsed_ids %r, members "
                    "%r" % (lb, m, [ids[k] for k in idx]))
        elif m:
            bad("collapse-metadata", "unexpected metadata %r" % (m,))
    if not case["norm"] and case["min_group_size"] == 1 and exp_groups:
        for q in range(n_inv):
            have = sum((row[q] if axis != "sample" else 0.0)
                       for row in got["rows"]) if axis != "sample" else \
                sum(got["rows"][q])
            want = sum(ref.vec(axis, k)[q] for k in range(len(ids)))
            if have != want:
                bad("collapse-conservation", "%s total of %r is %r, was %r" %
                    (inv, ref.ids(inv)[q], have, want))
    if observe.snapshot(t) != before:
        bad("receiver-modified", "collapse changed its receiver")
    rec.nt(has_nz and multi)


# ---------------------------------------------------------------------------
# pinned: groups with more than 1024 members (block-wise stacking)

def _long(n, axis, what, lab):
    m = 2
    rows = [[float((i * 7 + j * 3) % 5) for j in range(m)] for i in range(n)]
    obs, samp = ["o%d" % i for i in range(n)], ["s%d" % j for j in range(m)]
    spec = {"obs": obs, "samp": samp, "rows": rows, "obs_md": None,
            "samp_md": None, "type": None, "form": "dense", "history": []}
    if axis == "sample":
        spec = {"obs": samp, "samp": obs,
                "rows": [[rows[i][j] for i in range(n)] for j in range(m)],
                "obs_md": None, "samp_md": None, "type": None,
                "form": "dense", "history": []}
    case = {"table": spec, "axis": axis, "what": what, "lab": lab}
    if what == "partition":
        case.update({"remove_empty": False, "ignore_none": False})
    else:
        case.update({"norm": False, "min_group_size": 1, "include_md": True})
    return case


REGRESSIONS = [
    _long(1875, "observation", "partition", {"kind": "const"}),
    _long(1500, "sample", "collapse", {"kind": "const"}),
    _long(2100, "observation", "collapse", {"kind": "id_mod", "k": 2,
                                            "salt": 1}),
    _long(1100, "sample", "partition", {"kind": "injective"}),
]
