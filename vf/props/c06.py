"""C06 - reordering, transposing, copying and renaming keep every value with
its IDs."""
import itertools
import re

from hypothesis import strategies as st

from .. import gen, ops, observe
from ..model import Ref, agree
from ..core import Violation

ID = "C06"
LEVEL = "exploration"
RULE = ("table (distinct cell values and distinct per-ID metadata in half of "
        "the cases) x history x operation in {sort_order(perm), sort(f), "
        "align_to(other, axis), transpose, copy, update_ids(map, strict, "
        "inplace)}; oracle is relational (every (obs,samp) value, per-ID "
        "metadata, exact order, bijection of IDs) plus round trips; "
        "non-trivial = the operation is a non-identity permutation/renaming "
        "of an axis with >= 2 pairwise different vectors; distinct = "
        "canonical-JSON hash.  Exhaustive sub-run: every permutation of each "
        "axis for all shapes up to 4x4")
BUDGET = {"quick": {"shards": 16, "examples": 250},
          "thorough": {"shards": 16, "examples": 5000}}
ASSUMPTIONS = ["snapshot via deepcopy + scipy toarray is trusted"]

SORT_FS = ["default", "reverse", "bylen", "identity", "sorted"]

OPS = st.one_of(
    st.builds(lambda a, k: {"kind": "sort_order", "axis": a, "key": k},
              ops.AX, ops.KEY),
    st.builds(lambda a, k: {"kind": "sort_order", "axis": a, "key": k},
              ops.AX, ops.KEY),
    st.builds(lambda a, f: {"kind": "sort", "axis": a, "f": f}, ops.AX,
              st.sampled_from(SORT_FS)),
    st.builds(lambda a, ko, ks, so, ss: {"kind": "align_to", "axis": a,
                                         "key_o": ko, "key_s": ks,
                                         "same_o": so, "same_s": ss},
              st.sampled_from(["sample", "observation", "both", "detect"]),
              ops.KEY, ops.KEY,
              st.sampled_from([True, True, "same-order", False, "subset",
                               "superset"]),
              st.sampled_from([True, True, "same-order", False, "subset",
                               "superset"])),
    st.just({"kind": "transpose"}),
    st.just({"kind": "copy"}),
    st.builds(lambda a, m, s, ip, sub, ex: {"kind": "update_ids", "axis": a,
                                            "style": m, "strict": s,
                                            "inplace": ip, "mask": sub,
                                            "extra": ex},
              ops.AX, st.sampled_from(["lengthen", "shorten", "swap", "mixed",
                                       "empty", "collide", "identity",
                                       "blank"]),
              st.booleans(), st.booleans(), ops.MASK, st.booleans()),
    st.builds(lambda a, m, s, ip, sub, ex: {"kind": "update_ids", "axis": a,
                                            "style": m, "strict": s,
                                            "inplace": ip, "mask": sub,
                                            "extra": ex},
              ops.AX, st.sampled_from(["lengthen", "shorten", "swap", "mixed"]),
              st.booleans(), st.booleans(), ops.MASK, st.booleans()),
)


@st.composite
def cases(draw, tier):
    distinct = draw(st.booleans())
    kind = draw(st.sampled_from(["int", "dyadic", "wild"]))
    ids = draw(st.sampled_from(["simple", "simple", "unicode"]))
    spec = draw(gen.table_specs(tier, values=kind, distinct=distinct, md=True,
                                history=True, ids=ids))
    # which axes carry metadata is drawn explicitly (every combination
    # matters for two-axis reorderings), with one value unique to each ID
    pat = draw(st.sampled_from(["as-drawn", "as-drawn", "both", "obs-only",
                                "samp-only", "none"]))
    two_axes = draw(st.integers(0, 7)) == 0
    if two_axes:
        # a reordering of both axes at once, for every combination of axes
        # that carry metadata (the general draw reaches one combination of
        # {both axes, real permutations, metadata pattern} too rarely)
        pat = draw(st.sampled_from(["both", "obs-only", "samp-only", "none"]))
    if pat != "as-drawn":
        spec["obs_md"] = [{"k": "ov%d" % i, "grp": "g%d" % (i % 2),
                           "lin": ["k__a", ["nested", "p__%d" % i]]}
                          for i in range(len(spec["obs"]))] \
            if pat in ("both", "obs-only") else None
        spec["samp_md"] = [{"k": "sv%d" % i, "n": i % 3,
                            "latlon": [48.5 + i, 11.25]}
                           for i in range(len(spec["samp"]))] \
            if pat in ("both", "samp-only") else None
    # list-valued metadata handed over as tuples
    spec["md_tuples"] = draw(st.sampled_from([False, False, True]))
    op = draw(OPS)
    if two_axes:
        op = {"kind": "align_to", "axis": draw(st.sampled_from(["both",
                                                                "detect"])),
              "key_o": draw(ops.KEY), "key_s": draw(ops.KEY),
              "same_o": True, "same_s": True}
        spec["history"] = [o for o in spec["history"]
                           if o["op"] not in ("add_metadata", "del_metadata")]
    if draw(st.sampled_from([False] * 29 + [True])):
        # one axis past 256 entries ('large axis' paths of the reorderings)
        spec = draw(gen.big_specs(md="simple", values="dyadic"))
    if op["kind"] == "sort" and draw(st.integers(0, 3)) == 0:
        # words: no digit anywhere on the sorted axis, not in order
        key = "obs" if op["axis"] == "observation" else "samp"
        pool = ["gut", "skin", "feces", "tongue", "soil", "water", "Air",
                "palm", "nose", "ear", "Leaf", "root", "sea", "ice"]
        n = len(spec[key])
        pick = list(draw(st.permutations(pool)))[:n]
        spec[key] = pick + ["w" + "x" * i for i in range(n - len(pick))]
        spec["history"] = [o for o in spec["history"]
                           if o["op"] not in ("rename", "transpose")]
    elif op["kind"] == "sort" and op["f"] in ("default", "sorted") and \
            draw(st.booleans()):
        # IDs that already sit in plain text order (or its reverse), which
        # is not natural order: "already sorted" shortcuts
        key = "obs" if op["axis"] == "observation" else "samp"
        n = len(spec[key])
        pool = ["S1", "S10", "S11", "S2", "S9", "x10.5", "x9", "s1", "S",
                "S1a", "S01", "S010", "t2", "t10"] \
            if draw(st.booleans()) else \
            ["1", "01", "1.0", "1e2", "10", "2", "-3", "+4", "0x10", "1_000",
             "100", "9", "0.5", "5e-1"]
        pick = list(draw(st.permutations(pool)))[:n]
        pick += ["u%d" % i for i in range(n - len(pick))]
        spec[key] = sorted(pick, reverse=draw(st.booleans()))
        spec["history"] = []
    positional = draw(st.sampled_from([False, False, True]))
    if draw(st.integers(0, 11)) == 0 and "rows" in spec:
        # two axes whose IDs, written one after the other, give the same
        # text: ['p','q','r','s'] and ['pq','rs'] (fixed-width ID arrays of
        # different width over the same characters are different IDs)
        n, m = len(spec["obs"]), len(spec["samp"])
        big_, small_ = (n, m) if n >= m else (m, n)
        if small_ >= 1 and big_ > small_ and big_ % small_ == 0 and \
                big_ <= 26:
            w = big_ // small_
            text = "pqrstuvwxyzabcdefghijklmno"[:big_]
            chunks = [text[i * w:(i + 1) * w] for i in range(small_)]
            spec["obs"], spec["samp"] = (list(text), chunks) if n >= m \
                else (chunks, list(text))
    return {"table": spec, "op": op, "positional": positional}


def strategy(tier):
    return cases(tier)


def sort_f(name):
    if name == "default":
        return None
    if name == "reverse":
        return lambda x: list(sorted(x, reverse=True))
    if name == "bylen":
        return lambda x: sorted(x, key=lambda i: (len(i), i))
    if name == "identity":
        return lambda x: list(x)
    if name == "sorted":
        return lambda x: sorted(x)
    raise ValueError(name)


def _relational(before, after, obs_map, samp_map, what, table=None):
    if table is not None:
        observe.check_lookups(table, after, what + " result")
    _relational_(before, after, obs_map, samp_map, what)


def _relational_(before, after, obs_map, samp_map, what):
    """`after` must hold, for every pair, the value `before` held for the
    pre-images; obs_map/samp_map: new id -> old id (bijections)."""
    b = Ref.from_snapshot(before)
    for name, ids, mp, old in (("observation", after["obs"], obs_map, b.obs),
                               ("sample", after["samp"], samp_map, b.samp)):
        if len(set(ids)) != len(ids):
            raise Violation("duplicate-ids", "%s: duplicated %s ids %r" %
                            (what, name, ids))
        if sorted(mp[i] for i in ids) != sorted(old):
            raise Violation("id-set", "%s: %s ids %r are not a relabelling of "
                            "%r" % (what, name, ids, old))
    for i, o in enumerate(after["obs"]):
        for j, s in enumerate(after["samp"]):
            want = b.cell(obs_map[o], samp_map[s])
            if after["rows"][i][j] != want:
                raise Violation("value-moved", "%s: value at (%r,%r) is %r, "
                                "original value of (%r,%r) is %r" %
                                (what, o, s, after["rows"][i][j], obs_map[o],
                                 samp_map[s], want))
    # ... with its tuples still tuples and its lists still lists
    for name, ids, mp, ak, bk, old in (
            ("observation", after["obs"], obs_map, after.get("obs_mdk"),
             before.get("obs_mdk"), b.obs),
            ("sample", after["samp"], samp_map, after.get("samp_mdk"),
             before.get("samp_mdk"), b.samp)):
        if ak is None or bk is None:
            continue
        for k, i in enumerate(ids):
            want = bk[old.index(mp[i])]
            if (ak[k] or None) != (want or None):
                raise Violation("metadata-value-kind", "%s: the metadata of "
                                "%s id %r has containers %r, they were %r" %
                                (what, name, i, ak[k], want))
    for name, ids, mp, amd, bmd, old in (
            ("observation", after["obs"], obs_map, after["obs_md"], b.obs_md,
             b.obs),
            ("sample", after["samp"], samp_map, after["samp_md"], b.samp_md,
             b.samp)):
        for k, i in enumerate(ids):
            want = None if bmd is None else bmd[old.index(mp[i])]
            got = None if amd is None else amd[k]
            if (got or None) != (want or None):
                raise Violation("metadata-moved", "%s: %s id %r has metadata "
                                "%r, its own metadata is %r" %
                                (what, name, i, got, want))


def _ident(ids):
    return {i: i for i in ids}


def _distinct_vectors(ref, axis):
    v = [tuple(x) for x in ref.vectors(axis)]
    return len(v) >= 2 and len(set(v)) == len(v)


def check(case, rec):
    op = case["op"]
    t = gen.build(case["table"], rec=rec)
    before = observe.snapshot(t)
    ref = Ref.from_snapshot(before)
    lay = observe.layout(t)
    rec.cls("unsorted", lay.get("sorted") is False)
    rec.cls("fmt:%s" % lay.get("format"))
    rec.cls("op:" + op["kind"])
    kind = op["kind"]

    if kind == "sort_order":
        axis = op["axis"]
        ids = ref.ids(axis)
        p = ops.perm_from_key(len(ids), op["key"])
        order = [ids[i] for i in p]
        r = t.sort_order(order, axis) if case.get("positional") else \
            t.sort_order(order, axis=axis)
        after = observe.snapshot(r)
        if (after["obs"] if axis == "observation" else after["samp"]) != order:
            raise Violation("order", "sort_order(%r) gave %r" % (
                order, after["obs"] if axis == "observation"
                else after["samp"]))
        other = "samp" if axis == "observation" else "obs"
        if after[other] != before[other]:
            raise Violation("other-axis-changed", "%r -> %r" %
                            (before[other], after[other]))
        _relational(before, after, _ident(ref.obs), _ident(ref.samp),
                    "sort_order", r)
        # inverse permutation restores everything
        back = observe.snapshot(r.sort_order(list(ids), axis=axis))
        msg = agree(back, ref, "perm then inverse perm")
        if msg:
            raise Violation("perm-roundtrip", msg)
        _unchanged(t, before, "sort_order", r)
        rec.nt(order != ids and _distinct_vectors(ref, axis))
        return

    if kind == "sort":
        axis = op["axis"]
        ids = ref.ids(axis)
        f = sort_f(op["f"])
        if f is None:
            # "natural order" is whatever biom.util.natsort says (its key is
            # the definition); independent of that definition it is an
            # order on the IDs, i.e. the same whatever order they were in
            from biom.util import natsort
            order = list(natsort(list(ids)))
            r = t.sort(axis=axis)
            if len(ids) > 1:
                rev = t.sort_order(list(reversed(ids)), axis=axis)
                got_rev = [str(i) for i in rev.sort(axis=axis).ids(axis=axis)]
                got_fwd = [str(i) for i in r.ids(axis=axis)]
                if got_rev != got_fwd:
                    raise Violation("order", "sort() depends on the order "
                                    "the axis was in: %r gives %r, reversed "
                                    "first it gives %r" %
                                    (ids, got_fwd, got_rev))
        else:
            order = list(f(list(ids)))
            r = t.sort(f, axis) if case.get("positional") else \
                t.sort(sort_f=f, axis=axis)
        after = observe.snapshot(r)
        got = after["obs"] if axis == "observation" else after["samp"]
        if got != order:
            raise Violation("order", "sort(%s) gave %r, expected %r" %
                            (op["f"], got, order))
        if f is None:
            _natural(got)
        _relational(before, after, _ident(ref.obs), _ident(ref.samp), "sort",
                    r)
        _unchanged(t, before, "sort", r)
        _again_after_edit(case, "sort", (lambda x: x.sort(axis=axis))
                          if f is None else
                          (lambda x: x.sort(sort_f=f, axis=axis)))
        rec.nt(order != ids and _distinct_vectors(ref, axis))
        return

    if kind == "align_to":
        _align(case, op, t, before, ref, rec)
        return

    if kind == "transpose":
        r = t.transpose()
        after = observe.snapshot(r)
        want = ref.transpose()
        msg = agree(after, want, "transpose")
        if msg:
            raise Violation("transpose", msg)
        back = observe.snapshot(r.transpose())
        msg = agree(back, ref, "transpose twice")
        if msg:
            raise Violation("transpose-roundtrip", msg)
        _unchanged(t, before, "transpose", r)
        _again_after_edit(case, "transpose", lambda x: x.transpose())
        rec.nt(len(ref.obs) != len(ref.samp) or
               ref.rows != want.rows)
        return

    if kind == "copy":
        r = t.copy()
        if r is t:
            raise Violation("copy-identity", "copy returned the receiver")
        after = observe.snapshot(r)
        msg = agree(after, ref, "copy")
        if msg:
            raise Violation("copy", msg)
        if after["type"] != before["type"]:
            raise Violation("copy-type", "%r -> %r" % (before["type"],
                                                       after["type"]))
        _again_after_edit(case, "copy", lambda x: x.copy())
        rec.nt(any(x != 0 for row in ref.rows for x in row))
        return

    if kind == "update_ids":
        _update_ids(case, op, t, before, ref, rec)
        return
    raise ValueError(op)


def _edit_in_place(x):
    """In-place edits that keep the table's matrix object where the library
    allows it: values, IDs (same width) and metadata all change."""
    x.transform(lambda v, i, md: v * 2, axis="observation", inplace=True)
    for axis in ("observation", "sample"):
        ids = [str(i) for i in x.ids(axis=axis)]
        same = {i: (i[:-1] + ("~" if i[-1:] != "~" else "^")) for i in ids
                if i}
        if len(same) == len(ids) and len(set(same.values())) == len(ids):
            x.update_ids(same, axis=axis, inplace=True)
        ids = [str(i) for i in x.ids(axis=axis)]
        x.add_metadata({ids[0]: {"edited": "yes"}}, axis=axis)


def _again_after_edit(case, what, f):
    """`f(table)` depends on what the table holds *now*: asked once, then
    again after in-place edits, the second answer is the answer a table that
    was never asked before gives after the same edits."""
    a = gen.build(case["table"])
    f(a)
    _edit_in_place(a)
    again = observe.snapshot(f(a))
    b = gen.build(case["table"])
    _edit_in_place(b)
    first = observe.snapshot(f(b))
    if again != first:
        raise Violation("stale-result", "%s, in-place edits, %s again gives "
                        "%r; the same edits then a first %s give %r" %
                        (what, what, again, what, first))


_NAT = re.compile(r"^([a-zA-Z_]*)(\d+)$")


def _natural(order):
    """Default sort is 'natural': among IDs made of the same letters prefix
    followed by an integer, numeric order is ascending."""
    groups = {}
    for pos, i in enumerate(order):
        m = _NAT.match(i)
        if m and len(m.group(2)) < 15:
            groups.setdefault(m.group(1), []).append(int(m.group(2)))
    for pre, nums in groups.items():
        if nums != sorted(nums):
            raise Violation("natural-order", "default sort placed %r-numbers "
                            "as %r in %r" % (pre, nums, order))


def _unchanged(t, before, what, result=None):
    after = observe.snapshot(t)
    if after != before:
        raise Violation("receiver-changed", "%s changed its receiver: %r -> "
                        "%r" % (what, before, after))
    if result is not None and result is not t and not result.is_empty():
        # each ID keeps its *own* metadata: editing the metadata of the
        # result through the table API must not reach the receiver
        for axis in ("observation", "sample"):
            ids = [str(i) for i in result.ids(axis=axis)]
            result.add_metadata({ids[0]: {"k": "edited", "added": 1}},
                                axis=axis)
        result.del_metadata(keys=["grp", "n"], axis="whole")
        # ... nor does rewriting its values in place, along either axis
        # (first along the axis its current layout serves in place)
        order_ = ("observation", "sample") \
            if result.matrix_data.format == "csr" else \
            ("sample", "observation")
        for axis in order_:
            result.transform(lambda v, i, md: v * 2 + 1, axis=axis,
                             inplace=True)
        # ... nor does renaming the result's IDs in place (to names of the
        # same width: ID arrays may be written in place)
        for axis in ("observation", "sample"):
            ids = [str(i) for i in result.ids(axis=axis)]
            same = {i: (i[:-1] + ("~" if i[-1:] != "~" else "^"))
                    for i in ids if i}
            if len(same) == len(ids) and \
                    len(set(same.values())) == len(ids):
                result.update_ids(same, axis=axis, inplace=True)
        after = observe.snapshot(t)
        if after != before:
            raise Violation("result-shares-state-with-receiver", "editing "
                            "the metadata / renaming the IDs of the table "
                            "returned by %s changed the receiver: %r -> %r" %
                            (what, (before["obs_md"], before["samp_md"]),
                             (after["obs_md"], after["samp_md"])))


def _align(case, op, t, before, ref, rec):
    from biom import Table
    from biom.exception import DisjointIDError
    axis = op["axis"]
    # `other`: independent values over a permutation of the same ID set on
    # the axes flagged "same", fresh IDs elsewhere
    po = ops.perm_from_key(len(ref.obs), op["key_o"])
    ps = ops.perm_from_key(len(ref.samp), op["key_s"])
    def other_ids(mine, perm, how, tag):
        # the same IDs in another order / fresh IDs / a strict subset or a
        # strict superset of mine (neither of which is "the same ID set")
        if how is True:
            return [mine[i] for i in perm]
        if how == "same-order":     # nothing to reorder on this axis
            return list(mine)
        if how == "subset" and len(mine) >= 2:
            return [mine[i] for i in perm][:-1]
        if how == "superset":
            return [mine[i] for i in perm] + ["zz_extra_%s" % tag]
        return ["zz_other_%s%d" % (tag, i) for i in range(len(mine))]
    o_ids = other_ids(ref.obs, po, op["same_o"], "o")
    s_ids = other_ids(ref.samp, ps, op["same_s"], "s")
    rows = [[float((i * 7 + j * 3) % 5) for j in range(len(s_ids))]
            for i in range(len(o_ids))]
    other = Table(gen.encode(rows, "dense")[0], o_ids, s_ids)
    other_before = observe.snapshot(other)
    can_o = op["same_o"] in (True, "same-order")
    can_s = op["same_s"] in (True, "same-order")
    ok = {"sample": can_s, "observation": can_o, "both": can_o and can_s,
          "detect": can_o or can_s}[axis]
    rec.cls("align:%s:%s" % (axis, "ok" if ok else "refused"))
    if not ok:
        try:
            t.align_to(other, axis=axis)
        except DisjointIDError:
            _unchanged(t, before, "align_to(refused)")
            return
        raise Violation("align-not-refused", "align_to(axis=%r) with "
                        "same_o=%r same_s=%r did not raise DisjointIDError" %
                        (axis, can_o, can_s))
    r = t.align_to(other, axis) if case.get("positional") else \
        t.align_to(other, axis=axis)
    if r is t or r is other:
        raise Violation("returned-receiver", "align_to returned %s instead "
                        "of a new table" % ("its receiver" if r is t else
                                            "its argument"))
    after = observe.snapshot(r)
    al_o = axis in ("observation", "both") or (axis == "detect" and can_o)
    al_s = axis in ("sample", "both") or (axis == "detect" and can_s)
    want_o = o_ids if al_o else before["obs"]
    want_s = s_ids if al_s else before["samp"]
    if after["obs"] != want_o or after["samp"] != want_s:
        raise Violation("order", "align_to(%r): ids %r / %r, expected %r / %r"
                        % (axis, after["obs"], after["samp"], want_o, want_s))
    _relational(before, after, _ident(ref.obs), _ident(ref.samp), "align_to",
                r)
    _unchanged(t, before, "align_to", r)
    if observe.snapshot(other) != other_before:
        raise Violation("argument-changed", "align_to changed `other`")
    # asked again after both tables' IDs were renamed in place: whether
    # two tables can be aligned is a question about the IDs they hold now
    a = gen.build(case["table"])
    a.align_to(other, axis=axis)
    for ax_, key_ in (("observation", "obs"), ("sample", "samp")):
        a.update_ids({i: i + "~" for i in before[key_]}, axis=ax_,
                     inplace=True)
        other.update_ids({i: i + "~" for i in other_before[key_]}, axis=ax_,
                         inplace=True)
    try:
        again = observe.snapshot(a.align_to(other, axis=axis))
    except DisjointIDError as e:
        raise Violation("stale-result", "align_to(%r) after both tables' "
                        "IDs were renamed in place (same sets as before, "
                        "renamed) is refused: %s" % (axis, e))
    if again["obs"] != [i + "~" for i in want_o] or \
            again["samp"] != [i + "~" for i in want_s] or \
            again["rows"] != after["rows"]:
        raise Violation("stale-result", "align_to(%r) again after both "
                        "tables' IDs were renamed in place gives %r / %r, "
                        "expected %r / %r renamed" %
                        (axis, again["obs"], again["samp"], want_o, want_s))
    # ... and when only one of the two was renamed, they no longer hold
    # the same IDs on any axis
    a = gen.build(case["table"])
    fresh_other = Table(gen.encode(rows, "dense")[0], o_ids, s_ids)
    a.align_to(fresh_other, axis=axis)
    for ax_, key_ in (("observation", "obs"), ("sample", "samp")):
        a.update_ids({i: i + "~" for i in before[key_]}, axis=ax_,
                     inplace=True)
    try:
        a.align_to(fresh_other, axis=axis)
    except DisjointIDError:
        pass
    else:
        raise Violation("stale-result", "align_to(%r) is accepted although "
                        "the receiver's IDs were renamed in place and no "
                        "longer match on any axis" % axis)
    rec.nt((al_o and want_o != before["obs"] and
            _distinct_vectors(ref, "observation")) or
           (al_s and want_s != before["samp"] and
            _distinct_vectors(ref, "sample")))


def _new_id(style, i, k):
    if style == "lengthen":
        return i + "_with_a_much_longer_suffix_%d" % k
    if style == "shorten":
        return "%d" % k
    if style == "mixed":
        return ("%d" % k) if k % 2 else i + "-renamed-and-longer"
    if style == "identity":
        return i
    return i + "_r"


def _update_ids(case, op, t, before, ref, rec):
    from biom.exception import TableException
    axis, style = op["axis"], op["style"]
    strict, inplace = op["strict"], op["inplace"]
    ids = ref.ids(axis)
    rec.cls("rename:%s:%s" % (style, "strict" if strict else "lenient"))
    if style == "empty":
        id_map = {}
    elif style == "swap":
        # a cyclic shift of the existing IDs (every new id is an old id)
        id_map = {ids[k]: ids[(k + 1) % len(ids)] for k in range(len(ids))}
    elif style == "collide":
        id_map = {i: "same" for i in ids}
    elif style == "blank":
        # shortened all the way: one ID becomes the empty text (which the
        # table accepts as an ID like any other)
        if "" in ids:
            rec.skip("blank id already present")
            return
        k0 = sum(1 for x in op["mask"] if x) % len(ids)
        id_map = {i: ("" if k == k0 else i) for k, i in enumerate(ids)}
    else:
        id_map = {i: _new_id(style, i, k) for k, i in enumerate(ids)}
    if not strict and style not in ("empty", "collide", "swap", "blank"):
        mk = ops.mask_for(len(ids), op["mask"])
        id_map = {i: v for (i, v), k in zip(list(id_map.items()), mk) if k}
    if op["extra"]:
        id_map["not-an-id-of-the-table"] = "whatever"
    new_ids = [id_map.get(i, i) for i in ids]
    missing = [i for i in ids if i not in id_map]
    should_refuse = (strict and missing) or len(set(new_ids)) != len(new_ids)

    if should_refuse:
        try:
            t.update_ids(dict(id_map), axis=axis, strict=strict,
                         inplace=inplace)
        except TableException:
            _unchanged(t, before, "update_ids(refused)")
            _index_ok(t, before)
            rec.cls("rename:refused")
            return
        raise Violation("rename-not-refused", "update_ids(%r, strict=%r, "
                        "inplace=%r) on %r did not raise TableException" %
                        (id_map, strict, inplace, ids))
    try:
        if case.get("positional"):
            r = t.update_ids(dict(id_map), axis, strict, inplace)
        else:
            r = t.update_ids(dict(id_map), axis=axis, strict=strict,
                             inplace=inplace)
    except TableException:
        if style != "blank":
            raise
        # refusing the empty text as an ID would be a policy, not a defect
        _unchanged(t, before, "update_ids(blank refused)")
        rec.cls("rename:blank-refused")
        return
    if inplace and r is not t:
        raise Violation("inplace-identity", "update_ids(inplace=True) did "
                        "not return the receiver")
    if not inplace:
        if r is t:
            raise Violation("inplace-identity", "update_ids(inplace=False) "
                            "returned the receiver")
        _unchanged(t, before, "update_ids(inplace=False)")
    after = observe.snapshot(r)
    got = after["obs"] if axis == "observation" else after["samp"]
    if got != new_ids:
        raise Violation("rename-ids", "update_ids gave %r, expected %r (map "
                        "%r)" % (got, new_ids, id_map))
    back = dict(zip(new_ids, ids))
    omap = back if axis == "observation" else _ident(ref.obs)
    smap = back if axis == "sample" else _ident(ref.samp)
    _relational(before, after, omap, smap, "update_ids")
    _index_ok(r, after)
    for old in ids:
        if old not in new_ids and r.exists(old, axis=axis):
            raise Violation("stale-index", "old id %r still known after "
                            "renaming to %r" % (old, new_ids))
    rec.nt(new_ids != ids and len(ids) >= 2)


def _index_ok(t, snap):
    for axis, key in (("observation", "obs"), ("sample", "samp")):
        for k, i in enumerate(snap[key]):
            if not t.exists(i, axis=axis) or t.index(i, axis) != k:
                raise Violation("index", "index(%r, %r) wrong after "
                                "update_ids" % (i, axis))


# ---------------------------------------------------------------------------
# exhaustive: all permutations of each axis, shapes up to 4x4

def ENUM_NAME(tier):
    return "exhaustive: all permutations of each axis for shapes 1..4 x 1..4"


def enum_chunks(tier):
    return [(n, m) for n in range(1, 5) for m in range(1, 5)]


def enum_chunk(tier, chunk):
    n, m = chunk
    obs = ["o%d" % i for i in range(n)]
    samp = ["s%d" % i for i in range(m)]
    for pattern in range(3):
        rows = [[(0.0 if (pattern == 1 and (i + j) % 2) or
                  (pattern == 2 and i == j) else float(i * m + j + 1))
                 for j in range(m)] for i in range(n)]
        for form in ("dense", "csr_unsorted", "csc"):
            spec = {"obs": obs, "samp": samp, "rows": rows,
                    "obs_md": [{"k": "v%d" % i} for i in range(n)],
                    "samp_md": None, "type": None, "form": form,
                    "history": []}
            for axis, k in (("observation", n), ("sample", m)):
                for perm in itertools.permutations(range(k)):
                    # perm_from_key(n, key) with len(key) == n sorts by key
                    key = [0] * k
                    for rank, idx in enumerate(perm):
                        key[idx] = rank * 2
                    yield {"table": spec,
                           "op": {"kind": "sort_order", "axis": axis,
                                  "key": key}}


REGRESSIONS = [
    {"table": {"obs": ["o0", "o1"], "samp": ["s0"], "rows": [[1.0], [2.0]],
               "obs_md": None, "samp_md": None, "type": None, "form": "dense",
               "history": []},
     "op": {"kind": "update_ids", "axis": "observation", "style": "empty",
            "strict": False, "inplace": True, "mask": [True], "extra": False}},
]
