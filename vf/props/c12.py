"""C12 - subsampling (rarefaction) draws exactly n counts per vector, never
inventing any."""
import itertools
import math
import os

import numpy as np
from hypothesis import strategies as st

from .. import gen, ops, observe
from ..model import Ref
from ..core import Violation

ID = "C12"
LEVEL = "exploration"
RULE = ("non-negative integer count table (all-zero vectors, single-entry "
        "vectors, totals equal to n, counts up to 1e6) x n >= 1 (below, at "
        "and above the vector totals) x axis x with/without replacement x "
        "by_id x seed x form x history x optional second call after an "
        "in-place scaling; oracle = validity predicate per "
        "vector (sum, bounds, support, retained set, dropped other-axis "
        "vectors), same-seed determinism, input unchanged; non-trivial = "
        "some vector with total > n and >= 2 non-zero entries (by_id: "
        "n < N); distinct = canonical hash.  Sub-run 'exact distribution': "
        "fixed small vectors x S seeds derived from VERIF_SEED, full outcome "
        "histogram against the exact multivariate hypergeometric / "
        "multinomial / uniform-subset pmf (chi-square, reject at p < 1e-9)")
BUDGET = {"quick": {"shards": 16, "examples": 250},
          "thorough": {"shards": 16, "examples": 5000}}
ASSUMPTIONS = ["'equally likely' is checked statistically: evidence of no "
               "gross bias at p < 1e-9, not of exact uniformity",
               "compiled subsample kernel exercised as built"]


@st.composite
def count_rows(draw, n, m):
    style = draw(st.sampled_from(["small", "small", "mixed", "big"]))
    hi = {"small": 6, "mixed": 40, "big": 10 ** 6}[style]
    thr = draw(st.sampled_from([0, 2, 5, 8]))
    cells = draw(st.lists(st.tuples(st.integers(0, 9), st.integers(1, hi)),
                          min_size=n * m, max_size=n * m))
    rows = [[0.0 if cells[i * m + j][0] < thr else float(cells[i * m + j][1])
             for j in range(m)] for i in range(n)]
    if draw(st.integers(0, 3)) == 0:
        rows[draw(st.integers(0, n - 1))] = [0.0] * m
    if draw(st.integers(0, 3)) == 0:
        j = draw(st.integers(0, m - 1))
        for r in rows:
            r[j] = 0.0
    return rows


@st.composite
def cases(draw, tier):
    n_, m_ = draw(gen.shapes(tier))
    n_, m_ = min(n_, 8), min(m_, 8)
    spec = {"obs": draw(gen.id_lists(n_, "simple", "o")),
            "samp": draw(gen.id_lists(m_, "simple", "s")),
            "rows": draw(count_rows(n_, m_)),
            "obs_md": draw(gen.simple_md(["o"] * n_)),
            "samp_md": draw(gen.simple_md(["s"] * m_)),
            "type": draw(st.sampled_from([None, "OTU table"])),
            "form": draw(st.sampled_from(gen.FORMS)),
            "history": draw(ops.histories("read"))}
    spec["ids_as"] = draw(st.sampled_from(["list"] * 4 + ["object_array",
                                                          "tuple"]))
    axis = draw(ops.AX)
    a = np.asarray(spec["rows"])
    totals = a.sum(axis=0 if axis == "sample" else 1)
    pool = sorted({int(x) for x in totals if x > 0} |
                  {int(x) - 1 for x in totals if x > 1} |
                  {int(x) + 1 for x in totals} | {1, 2, 3})
    n = draw(st.sampled_from(pool))
    mode = draw(st.sampled_from(["without", "without", "with", "by_id"]))
    if mode == "by_id":
        n = draw(st.integers(1, 9))
    return {"table": spec, "axis": axis, "n": n, "mode": mode,
            "seed": draw(st.integers(0, 2 ** 32 - 1)),
            # how the call is spelled: keywords, positional arguments in
            # the documented order, or the generate_subsamples() helper
            "call": draw(st.sampled_from(["kw", "kw", "positional",
                                          "generator"])),
            # the same call again after the table's counts were scaled in
            # place (nothing about a table may be remembered across edits)
            "again": draw(st.sampled_from([None, None, 2, 3])),
            # flags spelled as numpy booleans
            "npflag": draw(st.sampled_from([False, False, True]))}


def strategy(tier):
    return cases(tier)


def validity(ref, got, axis, n, mode, what):
    """The validity predicate of the statement; raises Violation."""
    inv = "observation" if axis == "sample" else "sample"
    akey, ikey = ("samp", "obs") if axis == "sample" else ("obs", "samp")
    ids, inv_ids = ref.ids(axis), ref.ids(inv)

    def bad(sub, msg):
        raise Violation(sub, "%s: %s [n=%d axis=%s mode=%s; original %r; "
                        "result ids %r/%r rows %r]" %
                        (what, msg, n, axis, mode, ref.as_dict(), got["obs"],
                         got["samp"], got["rows"]))

    def res_vec(a_id):
        pos = got[akey].index(a_id)
        v = [row[pos] for row in got["rows"]] if axis == "sample" \
            else got["rows"][pos]
        return dict(zip(got[ikey], v))

    totals = {i: sum(ref.vec(axis, k)) for k, i in enumerate(ids)}
    if len(set(got[akey])) != len(got[akey]) or \
            len(set(got[ikey])) != len(got[ikey]):
        bad("duplicate-ids", "duplicated ids")
    if not set(got[ikey]) <= set(inv_ids):
        bad("invented-id", "%s ids %r not in the original" % (inv, got[ikey]))
    if [i for i in inv_ids if i in got[ikey]] != got[ikey]:
        bad("order", "%s ids reordered: %r" % (inv, got[ikey]))
    if mode == "by_id":
        want_n = min(n, len(ids))
        if len(got[akey]) != want_n and got[ikey]:
            bad("by-id-count", "%d %s ids kept, expected min(n, N) = %d" %
                (len(got[akey]), axis, want_n))
        if not set(got[akey]) <= set(ids):
            bad("invented-id", "%r" % (got[akey],))
        if [i for i in ids if i in got[akey]] != got[akey]:
            bad("order", "%s ids reordered: %r" % (axis, got[akey]))
        kept = [k for k, i in enumerate(ids) if i in got[akey]]
        sub = ref.take(axis, kept)
        # other-axis vectors left all-zero are dropped
        want_inv = [inv_ids[q] for q in sub.nonempty_idx(inv)]
        if got[ikey] != want_inv:
            if not got[ikey] and not want_inv:
                return
            bad("by-id-other-axis", "%s ids %r, expected %r" %
                (inv, got[ikey], want_inv))
        for a_id in got[akey]:
            rv = res_vec(a_id)
            ov = dict(zip(inv_ids, ref.vec(axis, ids.index(a_id))))
            for q in got[ikey]:
                if rv[q] != ov[q]:
                    bad("by-id-values", "value (%r,%r) changed %r -> %r" %
                        (a_id, q, ov[q], rv[q]))
        return
    if mode == "without":
        want_axis = [i for i in ids if totals[i] >= n]
    else:
        want_axis = [i for i in ids if totals[i] > 0]
    if got[akey] != want_axis:
        if not (not want_axis and (not got[akey] or not got[ikey])):
            bad("retained-set", "%s ids %r, expected exactly %r (totals %r)"
                % (axis, got[akey], want_axis, totals))
    support = set()
    for a_id in got[akey]:
        rv = res_vec(a_id)
        ov = dict(zip(inv_ids, ref.vec(axis, ids.index(a_id))))
        s = sum(rv.values())
        if s != n:
            bad("depth", "vector %r sums to %r, not n=%d" % (a_id, s, n))
        for q, v in rv.items():
            if v < 0 or v != math.floor(v):
                bad("non-integer", "entry (%r,%r)=%r" % (a_id, q, v))
            if mode == "without" and v > ov[q]:
                bad("invented-count", "entry (%r,%r)=%r exceeds the "
                    "original %r" % (a_id, q, v, ov[q]))
            if v != 0 and ov[q] == 0:
                bad("invented-count", "entry (%r,%r)=%r where the original "
                    "was zero" % (a_id, q, v))
            if v != 0:
                support.add(q)
    # other-axis vectors left all-zero are dropped, the others are present
    # (a dropped one necessarily had only zeros in the retained vectors)
    for q in got[ikey]:
        if q not in support:
            bad("empty-vector-kept", "%s id %r is all-zero in the result" %
                (inv, q))
    # an other-axis id is missing only if it is all-zero in the result
    # (its draws are unobservable, so nothing more can be said per id)


def run(t, case):
    call = case.get("call", "kw")
    B = np.bool_ if case.get("npflag") else bool
    if call == "positional":
        # subsample(n, axis='sample', by_id=False, with_replacement=False,
        #           seed=None)
        return t.subsample(case["n"], case["axis"],
                           B(case["mode"] == "by_id"),
                           B(case["mode"] == "with"), case["seed"])
    if call == "generator" and case["mode"] != "with":
        from biom.util import generate_subsamples
        g = generate_subsamples(t, case["n"], case["axis"],
                                B(case["mode"] == "by_id"))
        next(g)
        return next(g)
    kw = {"axis": case["axis"], "seed": case["seed"]}
    if case["mode"] == "with":
        kw["with_replacement"] = B(True)
    if case["mode"] == "by_id":
        kw["by_id"] = B(True)
    elif case.get("npflag"):
        kw["by_id"] = B(False)
    return t.subsample(case["n"], **kw)


XPROC = r"""
import json, sys
sys.path.insert(0, %r)
import numpy as np
from biom import Table
ids_o = ["gut", "skin", "feces", "tongue", "soil", "water", "o7", "o8"]
ids_s = ["palm", "nose", "ear", "s4", "s5", "s6"]
t = Table(np.arange(1, 49, dtype=float).reshape(8, 6) %% 7 + 1, ids_o, ids_s)
out = []
for axis in ("sample", "observation"):
    for seed in (0, 1, 7, 12345):
        for kw in ({"by_id": True}, {}, {"with_replacement": True}):
            n = 3 if kw.get("by_id") else 5
            r = t.subsample(n, axis=axis, seed=seed, **kw)
            out.append([axis, seed, sorted(kw), [str(i) for i in r.ids()],
                        [str(i) for i in r.ids(axis="observation")],
                        r.matrix_data.toarray().tolist()])
print(json.dumps(out))
"""


def check_xproc(case, rec):
    """The same seed gives the same result in another run of the program:
    the draws are repeated in fresh interpreters whose string hashing is
    seeded differently."""
    import json
    import subprocess
    import sys
    from ..core import REPO
    code = XPROC % (REPO,)
    outs = []
    for hs in case["xproc"]["hashseeds"]:
        env = dict(os.environ, PYTHONHASHSEED=str(hs))
        p = subprocess.run([sys.executable, "-c", code], env=env,
                           capture_output=True, text=True, cwd="/")
        if p.returncode != 0:
            raise Violation("xproc-failed", "subsampling in a fresh "
                            "interpreter failed: %s" % p.stderr[-400:])
        outs.append(json.loads(p.stdout))
    rec.cls("cross-process-reproducibility")
    for hs, o in zip(case["xproc"]["hashseeds"][1:], outs[1:]):
        for a, b in zip(outs[0], o):
            if a != b:
                raise Violation("seed-not-reproducible", "subsample(%r) "
                                "gives %r in one interpreter and %r in "
                                "another (PYTHONHASHSEED=%s)" %
                                (a[:3], a[3:], b[3:], hs))
    rec.nt(True)


def check(case, rec):
    if "dist" in case:
        return check_distribution(case, rec)
    if "xproc" in case:
        return check_xproc(case, rec)
    t = gen.build(case["table"], rec=rec)
    before = observe.snapshot(t)
    ref = Ref.from_snapshot(before)
    axis, n, mode = case["axis"], case["n"], case["mode"]
    lay = observe.layout(t)
    rec.cls("fmt:%s" % lay.get("format"))
    rec.cls("unsorted", lay.get("sorted") is False)
    rec.cls("mode:" + mode)
    rec.cls("axis:" + axis)
    r = run(t, case)
    if r is t:
        raise Violation("returned-receiver", "subsample returned self")
    got = observe.snapshot(r)
    observe.check_lookups(r, got, "subsample result")
    if observe.snapshot(t) != before:
        raise Violation("input-modified", "subsample changed its input: %r "
                        "-> %r" % (before, observe.snapshot(t)))
    validity(ref, got, axis, n, mode, "subsample")
    # metadata travels with the ids
    for key, ax in (("obs", "observation"), ("samp", "sample")):
        md = ref.md(ax)
        gmd = got[key + "_md"]
        for pos, i in enumerate(got[key]):
            want = md[ref.ids(ax).index(i)] if md is not None else None
            have = gmd[pos] if gmd is not None else None
            if (have or None) != (want or None):
                raise Violation("metadata", "%s id %r metadata %r != %r" %
                                (ax, i, have, want))
    if case.get("again"):
        k = int(case["again"])
        t.transform(lambda v, i, md: v * k, axis=axis, inplace=True)
        before2 = observe.snapshot(t)
        got3 = observe.snapshot(run(t, case))
        validity(Ref.from_snapshot(before2), got3, axis, n, mode,
                 "second subsample, after scaling the counts by %d in place"
                 % k)
        if observe.snapshot(t) != before2:
            raise Violation("input-modified", "second subsample changed "
                            "its input")
        rec.cls("subsampled-again-after-edit")
    # same seed, same result (on an independently built table)
    rec.cls("call:" + case.get("call", "kw"))
    if case.get("call") == "generator" and mode != "with" and \
            case["seed"] % 8 == 0:
        # generators created afresh do not all start with the same draw
        # (the helper takes no seed: "a new randomly subsampled table")
        from biom import Table
        from biom.util import generate_subsamples
        tiny = Table(np.ones((4, 1)), ["a", "b", "c", "d"], ["s"])
        firsts = set()
        for _ in range(40):
            g_ = generate_subsamples(tiny, 2, "sample", False)
            r_ = next(g_)
            firsts.add((tuple(str(i) for i in r_.ids(axis="observation")),
                        tuple(r_.matrix_data.toarray().ravel().tolist())))
        if len(firsts) < 2:
            raise Violation("biased-draw", "40 fresh generate_subsamples() "
                            "generators all started with the same draw %r "
                            "(6 outcomes are equally likely)" % (firsts,))
    if case.get("call") == "generator" and mode != "with":
        return      # the helper takes no seed
    r2 = observe.snapshot(run(gen.build(case["table"]), case))
    if (r2["obs"], r2["samp"], r2["rows"]) != (got["obs"], got["samp"],
                                               got["rows"]):
        raise Violation("seed-not-reproducible", "same seed gave %r then %r"
                        % ((got["obs"], got["samp"], got["rows"]),
                           (r2["obs"], r2["samp"], r2["rows"])))
    vecs = ref.vectors(axis)
    if mode == "by_id":
        rec.nt(n < len(vecs) and any(x for v in vecs for x in v))
    else:
        rec.nt(any(sum(v) > n and sum(1 for x in v if x) >= 2 for v in vecs))
        rec.cls("vector-total-equals-n", any(sum(v) == n for v in vecs))
        rec.cls("vector-total-below-n", any(0 < sum(v) < n for v in vecs))
        rec.cls("empty-vector-present", any(sum(v) == 0 for v in vecs))


# ---------------------------------------------------------------------------
# exact distribution sub-run

DIST = [
    {"vec": [1, 2, 3], "n": 2, "mode": "without"},
    {"vec": [1, 2, 3], "n": 3, "mode": "without"},
    {"vec": [5, 1], "n": 3, "mode": "without"},
    {"vec": [1, 1, 1, 1], "n": 2, "mode": "without"},
    {"vec": [2, 2], "n": 2, "mode": "without"},
    {"vec": [3, 0, 2, 1], "n": 4, "mode": "without"},
    {"vec": [1, 2, 3], "n": 2, "mode": "with"},
    {"vec": [5, 1], "n": 3, "mode": "with"},
    {"vec": [2, 2], "n": 3, "mode": "with"},
    {"vec": [1, 1, 1, 1], "n": 2, "mode": "by_id"},
    {"vec": [4, 1, 1], "n": 1, "mode": "by_id"},
    # a single unit drawn from unequal entries
    {"vec": [9, 1], "n": 1, "mode": "without"},
    {"vec": [1, 2, 3], "n": 1, "mode": "without"},
    {"vec": [5, 1], "n": 1, "mode": "with"},
]
NSEEDS = {"quick": 2000, "thorough": 40000}


def ENUM_NAME(tier):
    return ("exact distribution: %d fixed vectors x 2 axes x %d seeds derived"
            " from VERIF_SEED (chi-square vs exact pmf, p < 1e-9 rejects); "
            "plus the same seeded draws repeated in 3 fresh interpreters "
            "with different string-hash seeds" %
            (len(DIST), NSEEDS[tier]))


def enum_chunks(tier):
    return [(k, axis) for k in range(len(DIST))
            for axis in ("sample", "observation")] + [("xproc", None)]


def enum_chunk(tier, chunk):
    k, axis = chunk
    if k == "xproc":
        yield {"xproc": {"hashseeds": [1, 2, 12345]}}
        return
    base = int(os.environ.get("VERIF_SEED", "1") or 1)
    d = dict(DIST[k])
    d.update({"axis": axis, "seeds": NSEEDS[tier],
              "seed0": (base * 1000003 + k * 7919) % (2 ** 31)})
    yield {"dist": d}


def outcomes(vec, n, mode):
    """{outcome tuple: probability} under the exact model."""
    N = sum(vec)
    out = {}
    if mode == "by_id":
        k = min(n, len(vec))
        subs = list(itertools.combinations(range(len(vec)), k))
        return {s: 1.0 / len(subs) for s in subs}
    for x in itertools.product(*[range(0, (c if mode == "without" else n) + 1)
                                 for c in vec]):
        if sum(x) != n:
            continue
        if mode == "without":
            p = 1.0
            for c, xi in zip(vec, x):
                p *= math.comb(c, xi)
            p /= math.comb(N, n)
        else:
            if any(xi and not c for c, xi in zip(vec, x)):
                continue
            p = math.factorial(n)
            for c, xi in zip(vec, x):
                p *= (c / N) ** xi / math.factorial(xi)
        if p > 0:
            out[tuple(x)] = p
    return out


def check_distribution(case, rec):
    from biom import Table
    from scipy.stats import chi2
    d = case["dist"]
    vec, n, mode, axis = d["vec"], d["n"], d["mode"], d["axis"]
    rec.cls("dist:" + mode)
    ids = ["v%d" % i for i in range(len(vec))]
    if axis == "sample":
        # one sample whose counts are `vec` (by_id: vec.size samples)
        if mode == "by_id":
            t = Table(np.asarray([vec], dtype=float), ["o"], ids)
        else:
            t = Table(np.asarray(vec, dtype=float).reshape(-1, 1), ids, ["s"])
    else:
        if mode == "by_id":
            t = Table(np.asarray(vec, dtype=float).reshape(-1, 1), ids, ["s"])
        else:
            t = Table(np.asarray([vec], dtype=float), ["o"], ids)
    exp = outcomes(vec, n, mode)
    hist = {}
    ref = Ref.from_snapshot(observe.snapshot(t))
    for s in range(d["seeds"]):
        kw = {"axis": axis, "seed": d["seed0"] + s}
        if mode == "with":
            kw["with_replacement"] = True
        if mode == "by_id":
            kw["by_id"] = True
        r = t.subsample(n, **kw)
        snap = observe.snapshot(r, copy=False)
        if s < 25:
            validity(ref, snap, axis, n, mode, "distribution sample")
        if mode == "by_id":
            kept = snap["samp"] if axis == "sample" else snap["obs"]
            o = tuple(sorted(ids.index(i) for i in kept))
        else:
            inv_ids = snap["obs"] if axis == "sample" else snap["samp"]
            vals = [row[0] for row in snap["rows"]] if axis == "sample" \
                else (snap["rows"][0] if snap["rows"] else [])
            got = dict(zip(inv_ids, vals))
            o = tuple(int(got.get(i, 0)) for i in ids)
        hist[o] = hist.get(o, 0) + 1
    impossible = [o for o in hist if o not in exp]
    if impossible:
        raise Violation("impossible-outcome", "outcomes %r cannot occur for "
                        "%r" % (impossible[:5], d))
    S = float(d["seeds"])
    # pool cells with a small expectation
    big = [(o, p) for o, p in exp.items() if p * S >= 5]
    small = [(o, p) for o, p in exp.items() if p * S < 5]
    stat, df = 0.0, -1
    for o, p in big:
        e = p * S
        stat += (hist.get(o, 0) - e) ** 2 / e
        df += 1
    if small:
        e = sum(p for _, p in small) * S
        if e > 0:
            obs_ = sum(hist.get(o, 0) for o, _ in small)
            stat += (obs_ - e) ** 2 / e
            df += 1
    pval = chi2.sf(stat, df) if df > 0 else 1.0
    rec.cls("dist-configs")
    if pval < 1e-9:
        worst = sorted(exp, key=lambda o: -abs(hist.get(o, 0) - exp[o] * S))
        raise Violation("biased-draw", "chi-square %.1f on %d df (p=%.3g) for"
                        " %r; largest deviations (outcome, observed, "
                        "expected): %r" % (stat, df, pval, d, [
                            (o, hist.get(o, 0), round(exp[o] * S, 1))
                            for o in worst[:4]]))
    never = [o for o, p in exp.items() if p * S >= 30 and o not in hist]
    if never:
        raise Violation("outcome-never-drawn", "%r never drawn in %d seeds "
                        "for %r" % (never[:4], d["seeds"], d))
    rec.nt(True)


def _deep(total, delta, axis="sample", mode="without"):
    """Pinned cases: a vector whose total is one past a power of two, asked
    for exactly that depth (kept as it is), one less (one unit removed) or
    one more (dropped); beside it a shallow vector, which is dropped."""
    big = [float(total - 1), 1.0]
    rows = [[big[0], 3.0], [big[1], 4.0]] if axis == "sample" else \
        [big, [3.0, 4.0]]
    return {"table": {"obs": ["o1", "o2"], "samp": ["s1", "s2"],
                      "rows": rows, "obs_md": None, "samp_md": None,
                      "type": None, "form": "dense", "history": []},
            "axis": axis, "n": total + delta, "mode": mode, "seed": 7,
            "call": "kw", "again": None, "npflag": False}


REGRESSIONS = [_deep(2 ** 16 + 1, 0), _deep(2 ** 16 + 1, -1),
               _deep(2 ** 20 + 1, 0), _deep(2 ** 20 + 1, -1, "observation"),
               _deep(2 ** 20 + 1, 1), _deep(2 ** 22 + 1, 0, "observation"),
               _deep(2 ** 22 + 1, -1), _deep(2 ** 20 + 1, 0, "sample",
                                             "with")]
