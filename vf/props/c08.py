"""C08 - filtering keeps exactly the selected IDs, intact and in order."""
import itertools

import numpy as np
from hypothesis import strategies as st

from .. import gen, ops, observe
from ..model import Ref, agree
from ..core import Violation

ID = "C08"
LEVEL = "exploration"
RULE = ("table x history x axis x invert x inplace x selector (ID collection "
        "in any container/order/with duplicates, predicate from a named "
        "family, remove_empty, head, unknown id); non-trivial = selection is "
        "a proper non-empty subset of a table with >= 1 non-zero, or a "
        "predicate run on a receiver whose indices are unsorted / layout is "
        "not the one the kernel needs; distinct = canonical-JSON hash. "
        "Exhaustive sub-run: every matrix over {0,1,2} of the listed shapes x "
        "every subset x invert x axis x inplace x {id list, predicate}")
BUDGET = {"quick": {"shards": 16, "examples": 300},
          "thorough": {"shards": 16, "examples": 4000}}
ASSUMPTIONS = ["dense reference model (vf/model.py) is the oracle",
               "compiled filter kernel exercised as built"]

CONTAINERS = ["list", "tuple", "set", "frozenset", "ndarray", "dictkeys",
              "dict"]

PREDS = st.one_of(
    st.builds(lambda k: {"name": "sum_gt", "k": k},
              st.sampled_from([0, 1, 3, -2, 10, 100])),
    st.builds(lambda j: {"name": "val_nonzero", "j": j}, st.integers(0, 7)),
    st.builds(lambda j, k: {"name": "val_eq_last", "j": j, "k": k},
              st.integers(0, 7), st.integers(0, 7)),
    st.builds(lambda m: {"name": "id_in", "mask": m}, ops.MASK),
    st.builds(lambda k, v: {"name": "md_eq", "key": k, "v": v},
              st.sampled_from(["k", "grp", "n"]),
              st.sampled_from(["a", "b", 0, 1])),
    st.builds(lambda v: {"name": "const", "v": v}, st.booleans()),
    st.just({"name": "nnz_ge2"}),
    st.builds(lambda j: {"name": "truthy_value", "j": j}, st.integers(0, 7)),
)

SELECTORS = st.one_of(
    st.builds(lambda c, m, k, d: {"kind": "ids", "container": c, "mask": m,
                                  "order": k, "dups": d},
              st.sampled_from(CONTAINERS), ops.MASK, ops.KEY, st.booleans()),
    st.builds(lambda c, m, k, d: {"kind": "ids", "container": c, "mask": m,
                                  "order": k, "dups": d},
              st.sampled_from(CONTAINERS), ops.MASK, ops.KEY, st.booleans()),
    st.builds(lambda f: {"kind": "pred", "fn": f}, PREDS),
    st.builds(lambda f: {"kind": "pred", "fn": f}, PREDS),
    st.builds(lambda a: {"kind": "remove_empty", "which": a},
              st.sampled_from(["whole", "sample", "observation"])),
    st.builds(lambda n, m: {"kind": "head", "n": n, "m": m},
              st.integers(-1, 9), st.integers(-1, 9)),
    st.builds(lambda w, n, c: {"kind": "unknown_id", "with_known": w,
                               "near": n, "container": c},
              st.booleans(),
              st.sampled_from(["far", "extend", "blank", "chop", "case"]),
              st.sampled_from(["list", "tuple", "set", "ndarray"])),
)


@st.composite
def cases(draw, tier):
    kind = draw(st.sampled_from(["int", "dyadic", "small", "count",
                                 "frac"]))
    distinct = draw(st.booleans())
    spec = draw(gen.table_specs(tier, values=kind, distinct=distinct,
                                md=True, history=True))
    for mk in ("obs_md", "samp_md"):
        if spec[mk] is not None and draw(st.integers(0, 3)) == 0:
            # only some IDs carry a record (the others hold an empty one)
            keep = draw(st.integers(0, len(spec[mk]) - 1))
            spec[mk] = [m if k == keep else {}
                        for k, m in enumerate(spec[mk])]
            spec["history"] = [o for o in spec["history"]
                               if o["op"] in ("sort", "data", "transpose",
                                              "nnz", "copy")]
    pre = draw(st.sampled_from(["none", "sort_s", "sort_s", "sort_o", "data_s",
                                "data_o"]))
    if pre.startswith("sort"):
        spec["history"] = spec["history"] + [{
            "op": "sort", "axis": "sample" if pre == "sort_s" else
            "observation", "key": draw(ops.KEY)}]
    elif pre.startswith("data"):
        spec["history"] = spec["history"] + [{
            "op": "data", "axis": "sample" if pre == "data_s" else
            "observation", "i": 0}]
    return {"table": spec, "axis": draw(ops.AX),
            "invert": draw(st.booleans()), "inplace": draw(st.booleans()),
            "sel": draw(SELECTORS),
            # filter(ids_to_keep, axis, invert, inplace) called positionally
            "positional": draw(st.sampled_from([False, False, True]))}


def strategy(tier):
    return cases(tier)


# ---------------------------------------------------------------------------

def make_pred(fn, ids):
    """Pure predicate over (true vector, id, metadata-or-None)."""
    name = fn["name"]
    if name == "sum_gt":
        return lambda v, i, md: sum(v) > fn["k"]
    if name == "val_nonzero":
        return lambda v, i, md: v[fn["j"] % len(v)] != 0
    if name == "val_eq_last":
        return lambda v, i, md: v[fn["j"] % len(v)] == v[-1 - fn["k"] % len(v)]
    if name == "id_in":
        mk = ops.mask_for(len(ids), fn["mask"])
        s = {x for x, k in zip(ids, mk) if k}
        return lambda v, i, md: i in s
    if name == "md_eq":
        return lambda v, i, md: (md is not None and
                                 md.get(fn["key"]) == fn["v"])
    if name == "const":
        return lambda v, i, md: fn["v"]
    if name == "nnz_ge2":
        return lambda v, i, md: sum(1 for x in v if x != 0) >= 2
    if name == "truthy_value":
        # returns a non-bool truthy/falsy object
        return lambda v, i, md: v[fn["j"] % len(v)]
    raise ValueError(name)


def container(kind, ids):
    if kind == "list":
        return list(ids)
    if kind == "tuple":
        return tuple(ids)
    if kind == "set":
        return set(ids)
    if kind == "frozenset":
        return frozenset(ids)
    if kind == "ndarray":
        return np.asarray(list(ids)) if ids else np.asarray([], dtype="U1")
    if kind == "dictkeys":
        return {i: 1 for i in ids}.keys()
    if kind == "dict":
        return {i: 1 for i in ids}
    raise ValueError(kind)


def own_view(t, axis, sel):
    """A slice of the table's own ID array (ids()[a:b:c] is what callers
    write), and the IDs it names."""
    arr = t.ids(axis=axis)
    n = len(arr)
    a = sel["order"][0] % n
    b = a + 1 + sel["order"][1] % (n - a)
    c = 1 + sel["order"][2] % 2
    view = arr[a:b:c]
    return view, [str(i) for i in view]


class _Quiet:
    def cls(self, *a, **k):
        pass

    def skip(self, *a, **k):
        pass

    def nt(self, *a, **k):
        pass


def check(case, rec):
    t = gen.build(case["table"], rec=rec)
    _check(case, rec, t)
    if not case["inplace"] and not t.is_empty() and \
            len(case["table"]["samp"]) % 3 == 0:
        # the receiver of a non-in-place call is asked again after in-place
        # edits: the answer is about what it holds now
        t.transform(lambda v, i, md: v * 2 + 1, axis="observation",
                    inplace=True)
        for ax in ("observation", "sample"):
            ids = [str(i) for i in t.ids(axis=ax)]
            same = {i: i[:-1] + ("~" if i[-1:] != "~" else "^")
                    for i in ids if i}
            if len(same) == len(ids) and \
                    len(set(same.values())) == len(ids):
                t.update_ids(same, axis=ax, inplace=True)
        rec.cls("asked-again-after-in-place-edits")
        try:
            _check(case, _Quiet(), t)
        except Violation as v:
            raise Violation(v.sub, "asked again after in-place edits: " +
                            v.msg)


def _check(case, rec, t):
    from copy import deepcopy
    axis, invert, inplace = case["axis"], case["invert"], case["inplace"]
    sel = case["sel"]
    t0 = deepcopy(t)        # the table as it is now, for the differential
    before = observe.snapshot(t)
    lay = observe.layout(t)
    rec.cls("fmt:%s" % lay.get("format"))
    rec.cls("unsorted", lay.get("sorted") is False)
    ref = Ref.from_snapshot(before)
    ids = ref.ids(axis)
    has_nz = any(x != 0 for r in ref.rows for x in r)
    rec.cls("sel:" + sel["kind"])

    if sel["kind"] == "ids":
        mk = ops.mask_for(len(ids), sel["mask"])
        chosen = [x for x, k in zip(ids, mk) if k]
        p = ops.perm_from_key(len(chosen), sel["order"])
        chosen = [chosen[i] for i in p]
        if sel["dups"]:
            chosen = chosen + chosen[:1]
        arg = container(sel["container"], chosen)
        if sel["container"] == "ndarray" and sel["dups"] and ids:
            arg, chosen = own_view(t, axis, sel)
            rec.cls("container:view-of-own-ids")
        rec.cls("container:" + sel["container"])
        r = t.filter(arg, axis, invert, inplace) if case.get("positional") \
            else t.filter(arg, axis=axis, invert=invert, inplace=inplace)
        exp = ref.filter_ids(axis, chosen, invert)
        _expect(r, t, exp, inplace, before, "filter(ids)")
        rec.nt(has_nz and 0 < len(exp.ids(axis)) < len(ids))
        return

    if sel["kind"] == "pred":
        pure = make_pred(sel["fn"], ids)
        calls = []

        def spy(v, i, md):
            calls.append((np.array(v, dtype=float).tolist(), str(i),
                          observe.plain(md) if md is not None else None))
            return pure(np.array(v, dtype=float).tolist(), str(i), md)

        rec.cls("pred:" + sel["fn"]["name"])
        r = t.filter(spy, axis, invert, inplace) if case.get("positional") \
            else t.filter(spy, axis=axis, invert=invert, inplace=inplace)
        # called once per ID, in order, with the true complete vector
        exp_calls = [(ref.vec(axis, k), ids[k],
                      (ref.md_of(axis, k) if ref.md(axis) is not None
                       else None))
                     for k in range(len(ids))]
        if [c[1] for c in calls] != [c[1] for c in exp_calls]:
            raise Violation("predicate-call-order", "predicate called with "
                            "ids %r, expected %r" % ([c[1] for c in calls],
                                                     ids))
        for got, want in zip(calls, exp_calls):
            if got[0] != want[0]:
                raise Violation("predicate-vector", "id %r: predicate got "
                                "vector %r, true vector %r (layout %r)" %
                                (got[1], got[0], want[0], lay))
            gm = got[2] if got[2] else None
            wm = want[2] if want[2] else None
            if gm != wm:
                raise Violation("predicate-metadata", "id %r: predicate got "
                                "metadata %r, true %r" % (got[1], got[2],
                                                         want[2]))
        accepted = [ids[k] for k in range(len(ids))
                    if bool(pure(ref.vec(axis, k), ids[k],
                                 ref.md_of(axis, k)))]
        exp = ref.filter_ids(axis, accepted, invert)
        _expect(r, t, exp, inplace, before, "filter(predicate)")
        # predicate filter == filter by the list of accepted IDs
        t2 = deepcopy(t0)
        r2 = t2.filter(list(accepted), axis=axis, invert=invert,
                       inplace=False)
        s1, s2 = observe.snapshot(r), observe.snapshot(r2)
        for k in ("obs", "samp", "rows", "obs_md", "samp_md"):
            if s1[k] != s2[k] and not (k == "rows" and (not s1["obs"] or
                                                        not s1["samp"])):
                raise Violation("predicate-vs-idlist", "%s differs: %r vs %r"
                                % (k, s1[k], s2[k]))
        rec.nt(has_nz and (lay.get("sorted") is False or
                           0 < len(exp.ids(axis)) < len(ids)))
        return

    if sel["kind"] == "remove_empty":
        r = t.remove_empty(axis=sel["which"], inplace=inplace)
        exp = ref.remove_empty(sel["which"])
        _expect(r, t, exp, inplace, before, "remove_empty")
        rec.nt(has_nz and (len(exp.obs) < len(ref.obs) or
                           len(exp.samp) < len(ref.samp)))
        neg = any(x < 0 for row in ref.rows for x in row)
        rec.cls("remove_empty:negatives", neg)
        return

    if sel["kind"] == "head":
        n, m = sel["n"], sel["m"]
        if n <= 0 or m <= 0:
            try:
                t.head(n, m)
            except IndexError:
                _unchanged(t, before, "head(n<=0)")
                return
            raise Violation("head-nonpositive", "head(%d,%d) did not raise "
                            "IndexError" % (n, m))
        r = t.head(n, m)
        exp = ref.take("observation", list(range(min(n, len(ref.obs)))))
        exp = exp.take("sample", list(range(min(m, len(ref.samp)))))
        if r is t:
            raise Violation("head-returns-self", "head returned receiver")
        _expect(r, t, exp, False, before, "head")
        rec.nt(has_nz and (n < len(ref.obs) or m < len(ref.samp)))
        return

    if sel["kind"] == "unknown_id":
        bad = "no-such-id-é"
        near = sel.get("near", "far")
        longest = max(ids, key=len)
        # near misses of a real ID (an ID array of fixed width must not clip
        # the request into a known ID, nor match blanks / case loosely)
        cand = {"extend": longest + "2", "blank": longest + " ",
                "chop": longest[:-1], "case": longest.swapcase()}.get(near)
        if cand and cand not in ids:
            bad = cand
            rec.cls("unknown-id:" + near)
        arg = ([ids[0], bad] if sel["with_known"] else [bad])
        arg = container(sel.get("container", "list"), arg)
        try:
            t.filter(arg, axis=axis, invert=invert, inplace=inplace)
        except Exception:
            _unchanged(t, before, "filter(unknown id)")
            rec.nt(has_nz)
            return
        raise Violation("unknown-id-accepted", "filter(%r) did not raise" %
                        (arg,))
    raise ValueError(sel)


def _unchanged(t, before, what):
    after = observe.snapshot(t)
    if after != before:
        raise Violation("receiver-changed-by-refused-call", "%s changed the "
                        "table: %r -> %r" % (what, before, after))


def _expect(r, t, exp, inplace, before, what):
    if inplace and r is not t:
        raise Violation("inplace-identity", "%s(inplace=True) did not return "
                        "the receiver" % what)
    if not inplace and r is t:
        raise Violation("inplace-identity", "%s(inplace=False) returned the "
                        "receiver" % what)
    snap = observe.snapshot(r)
    msg = agree(snap, exp, what)
    if msg:
        raise Violation("filter-result", msg + " ; table before: %r" %
                        (before,))
    # every kept ID has the very record it had: an axis without metadata
    # stays without, an empty record stays an empty record
    for key, mk in (("obs", "obs_md"), ("samp", "samp_md")):
        if not snap[key] or snap[key] != (exp.obs if key == "obs"
                                          else exp.samp):
            continue
        if before[mk] is None:
            want = None
        else:
            rec_of = dict(zip(before[key], before[mk]))
            want = [rec_of[i] for i in snap[key]]
        if not observe.same_data(snap[mk], want):
            raise Violation("filter-metadata", "%s: %s metadata of the kept "
                            "IDs %r is %r, they had %r" %
                            (what, key, snap[key], snap[mk], want))
    if exp.obs and exp.samp:
        if snap["shape"] != [len(exp.obs), len(exp.samp)]:
            raise Violation("filter-shape", "%s shape %r" % (what,
                                                            snap["shape"]))
        # the public accessors agree too
        for k, o in enumerate(exp.obs):
            got = r.data(o, axis="observation").tolist()
            if got != exp.rows[k]:
                raise Violation("filter-result", "%s data(%r) = %r, expected "
                                "%r" % (what, o, got, exp.rows[k]))
        for axis in ("observation", "sample"):
            for k, i in enumerate(exp.ids(axis)):
                if r.index(i, axis) != k or not r.exists(i, axis):
                    raise Violation("filter-index", "%s index(%r)=%r, "
                                    "expected %d" % (what, i,
                                                     r.index(i, axis), k))


# ---------------------------------------------------------------------------
# exhaustive sub-domain

ENUM_SHAPES = {"quick": [(1, 1), (1, 2), (2, 1), (2, 2), (2, 3)],
               "thorough": [(1, 1), (1, 2), (2, 1), (2, 2), (2, 3), (3, 2),
                            (3, 3)]}
CHUNK = 243


def ENUM_NAME(tier):
    return ("exhaustive: matrices over {0,1,2} of shapes %r x subset x invert"
            " x axis x inplace x {ids,pred}" % (ENUM_SHAPES[tier],))


def enum_chunks(tier):
    out = []
    for (n, m) in ENUM_SHAPES[tier]:
        total = 3 ** (n * m)
        for start in range(0, total, CHUNK):
            out.append((n, m, start, min(total, start + CHUNK)))
    return out


def enum_chunk(tier, chunk):
    n, m, lo, hi = chunk
    obs = ["o%d" % i for i in range(n)]
    samp = ["s%d" % i for i in range(m)]
    for code in range(lo, hi):
        c = code
        cells = []
        for _ in range(n * m):
            cells.append(float(c % 3))
            c //= 3
        rows = [cells[i * m:(i + 1) * m] for i in range(n)]
        spec = {"obs": obs, "samp": samp, "rows": rows, "obs_md": None,
                "samp_md": None, "type": None, "form": "dense",
                "history": []}
        for axis in ("sample", "observation"):
            k = m if axis == "sample" else n
            for sub in range(1, 2 ** k):
                mask = [bool(sub >> b & 1) for b in range(k)]
                for invert in (False, True):
                    for inplace in (False, True):
                        yield {"table": spec, "axis": axis, "invert": invert,
                               "inplace": inplace,
                               "sel": {"kind": "ids", "container": "list",
                                       "mask": mask, "order": [0],
                                       "dups": False}}
                        yield {"table": spec, "axis": axis, "invert": invert,
                               "inplace": inplace,
                               "sel": {"kind": "pred",
                                       "fn": {"name": "id_in",
                                              "mask": mask}}}


REGRESSIONS = [
    # predicate after a sample reordering (unsorted indices)
    {"table": {"obs": ["o0", "o1"], "samp": ["s0", "s1", "s2"],
               "rows": [[1.0, 2.0, 3.0], [4.0, 0.0, 6.0]], "obs_md": None,
               "samp_md": None, "type": None, "form": "dense",
               "history": [{"op": "sort", "axis": "sample",
                            "key": [2, 1, 0, 0, 0, 0, 0, 0]}]},
     "axis": "observation", "invert": False, "inplace": False,
     "sel": {"kind": "pred", "fn": {"name": "const", "v": True}}},
    # remove_empty must keep vectors whose sum is not positive
    {"table": {"obs": ["o0", "o1"], "samp": ["s0", "s1"],
               "rows": [[1.0, -1.0], [-2.0, 0.0]], "obs_md": None,
               "samp_md": None, "type": None, "form": "dense", "history": []},
     "axis": "sample", "invert": False, "inplace": False,
     "sel": {"kind": "remove_empty", "which": "whole"}},
]
