"""C04 - written HDF5 files conform to the BIOM 2.1 layout; both matrix
views agree (independent decoder)."""
import os
import tempfile
from datetime import datetime

import numpy as np
from hypothesis import strategies as st

from .. import gen, observe, h5spec
from ..core import Violation
from . import c01
from ..cli import SUB

ID = "C04"
LEVEL = "exploration"
RULE = ("C01 domain plus empty-axis (0xM, Nx0) and all-zero tables, every "
        "construction form / history, written by to_hdf5, save_table or "
        "`convert --to-hdf5`; oracle = independent decoder (vf/h5spec.py, raw "
        "h5py, written against biom-2.1.rst) + comparison of both decoded "
        "matrices, IDs and metadata with a deep snapshot of the table; "
        "non-trivial = (>= 1 non-zero and (non-canonical layout before "
        "writing or metadata present)) or an empty axis; distinct = hash")
BUDGET = {"quick": {"shards": 16, "examples": 200},
          "thorough": {"shards": 16, "examples": 5000}}
ASSUMPTIONS = ["h5py is trusted; offsets of an N-vector compressed matrix "
               "have N+1 entries (the rst prints the two lengths swapped)"]

TMP = c01.TMP


@st.composite
def cases(draw, tier):
    spec = draw(gen.h5_table_specs(tier, allow_empty_axis=True, poke=True,
                                   big=True))
    writer = draw(st.sampled_from(["to_hdf5", "save_table", "to_hdf5",
                                   "convert"]))
    # where the table written comes from: built in memory, or itself loaded
    # from a JSON / HDF5 document first
    origin = draw(st.sampled_from(["memory"] * 4 + ["json", "hdf5"]))
    if writer == "convert" or origin != "memory":
        # `convert` re-writes a *loaded* table; a loaded table keeps only the
        # text payload of group metadata (no data type), which to_hdf5 cannot
        # write again - outside what the property quantifies over
        spec["obs_gmd"] = spec["samp_gmd"] = None
    return {"table": spec, "origin": origin,
            # an unrelated earlier write in the same process used custom
            # formatters for the categories this table carries
            "prior_custom": draw(st.sampled_from([False, False, True])), "compress": draw(st.booleans()), "writer": writer,
            "generated_by": draw(gen._H5TEXT1),
            "date": c01.date_to_json(draw(c01.DATES)),
            "sub": writer == "convert" and draw(st.sampled_from(SUB)),
            "date_mode": draw(st.sampled_from(["explicit", "explicit",
                                               "omitted", "attr"]))}


def strategy(tier):
    return cases(tier)


def _expected_md_column(md, cat):
    return [m[cat] for m in md]


def _col_equal(got, want, listy):
    if len(got) != len(want):
        return False
    for g, w in zip(got, want):
        if listy:
            g2 = [x for x in g if x != ""]
            if g2 != list(w):
                return False
        elif isinstance(w, (bool, int, float)) and \
                isinstance(g, (bool, int, float)):
            if g != w:
                return False
        elif g != w:
            return False
    return True


def _earlier_write_with_custom_formatters(src):
    """Another table of the same categories is written with
    `format_fs={category: f}`; what `f` does is that call's business only."""
    from biom import Table
    cats = sorted({k for key in ("obs_md", "samp_md")
                   for m in (src[key] or []) for k in (m or {})})
    if not cats:
        return

    def custom(grp, header, md, compression):
        name = "metadata/" + header.replace("/", "@@SLASH@@")
        grp.create_dataset(name, shape=(len(md),),
                           dtype=h5spec.h5py.string_dtype(),
                           data=[b"written by a custom formatter"] * len(md))
    md = [{c: "x" for c in cats}]
    small = Table(np.array([[1.0]]), ["o"], ["s"], md, md)
    with h5spec.mem_file() as f:
        small.to_hdf5(f, "earlier", format_fs={c: custom for c in cats})


def check(case, rec):
    import h5py
    spec = case["table"]
    t = gen.build_h5(spec, rec=rec)
    src = observe.snapshot(t)
    if not observe.all_finite(src):
        rec.skip("history overflowed to a non-finite value")
        return
    origin = case.get("origin", "memory")
    if origin != "memory" and src["obs"] and src["samp"] and \
            case["writer"] != "convert":
        import io
        import biom
        if origin == "json":
            t = biom.parse.parse_biom_table(io.StringIO(t.to_json("vf")))
        else:
            with h5spec.mem_file() as f:
                t.to_hdf5(f, "vf")
                t = biom.Table.from_hdf5(f)
        src = observe.snapshot(t)
        rec.cls("origin:" + origin)
    lay = observe.layout(t)
    n, m = len(src["obs"]), len(src["samp"])
    rec.cls("writer:" + case["writer"])
    rec.cls("empty-axis", n == 0 or m == 0)
    rec.cls("unsorted", lay.get("sorted") is False)
    rec.cls("stored-zeros", bool(lay.get("stored_zeros")))
    rec.cls("fmt:%s" % lay.get("format"))
    writer = case["writer"]
    if writer == "convert" and (n == 0 or m == 0):
        writer = "to_hdf5"   # convert needs a loadable (non-empty) input
    gen_by = case["generated_by"]
    where = None
    if case.get("prior_custom"):
        _earlier_write_with_custom_formatters(src)
        rec.cls("after-a-write-with-custom-formatters")
    with tempfile.TemporaryDirectory(prefix="vf-c04-", dir=TMP) as d:
        path = os.path.join(d, "t.biom")
        if writer == "convert":
            # JSON -> `biom convert --to-hdf5`; the command stamps its own
            # generated-by / date and defaults the type to "Table"
            from ..cli import command
            convert = command("convert")
            from biom import load_table
            jpath = os.path.join(d, "in.json")
            c01.write(t, jpath + ".h5", dict(case, writer="to_hdf5"))
            if len(case["generated_by"]) % 2:
                # the input comes from an older writer (format 2.0, another
                # producer): what convert writes is a 2.1 file of its own
                with h5py.File(jpath + ".h5", "r+") as f_:
                    f_.attrs["format-version"] = (2, 0)
                    f_.attrs["generated-by"] = "some other producer 0.1"
                rec.cls("convert-input:stamped-2.0")
            from ..cli import invoke
            # --collapsed-observations / --collapsed-samples: the axis
            # metadata becomes {'collapsed_ids': sorted category names}
            which = {0: ("observation", "sample"), 1: ("observation",),
                     2: ("sample",)}.get(len(case["generated_by"]) % 6, ())
            which = tuple(a for a in which
                          if src["obs_md" if a == "observation"
                                 else "samp_md"] is not None)
            flags = ["--collapsed-%ss" % a for a in which]
            rc, out_ = invoke(convert, "convert",
                              ["-i", jpath + ".h5", "-o", path, "--to-hdf5"]
                              + flags, case.get("sub", False))
            if rc != 0:
                raise Violation("cli-exit", "convert exited %r: %s" %
                                (rc, out_[-300:]))
            t = load_table(jpath + ".h5")
            src = observe.snapshot(t)
            for a in which:
                key = "obs_md" if a == "observation" else "samp_md"
                src[key] = [{"collapsed_ids": sorted(m_.keys())}
                            for m_ in src[key]]
                rec.cls("convert --collapsed-%ss" % a)
            gen_by = None
        else:
            mode = case.get("date_mode", "explicit")
            rec.cls("date:" + mode)
            if mode == "explicit":
                c01.write(t, path, dict(case, writer=writer))
            else:
                if mode == "attr":
                    t.create_date = c01.date_from_json(case["date"])
                    src["__attr_date__"] = True
                with h5py.File(path, "w") as f:
                    # written into the file itself or into a group of it
                    # ("h5grp : a h5py Group")
                    if mode == "omitted" and len(gen_by) % 2:
                        where = "tables/one"
                        f.create_group("tables").create_group("other")
                        t.to_hdf5(f.create_group(where), gen_by,
                                  compress=case["compress"])
                    else:
                        t.to_hdf5(f, gen_by, compress=case["compress"])
        with h5py.File(path, "r") as f:
            if where:
                rec.cls("written-into-a-sub-group")
                stray = sorted(set(f.keys()) - {"tables"}) + \
                    sorted(set(f["tables"].keys()) - {"one", "other"}) + \
                    sorted(f["tables/other"].keys()) + sorted(f.attrs.keys())
                if stray:
                    raise Violation("spec-conformance", "to_hdf5(group) "
                                    "wrote outside the group it was given: "
                                    "%r" % (stray,))
                dec = h5spec.decode(f[where])
            else:
                dec = h5spec.decode(f)

    def bad(sub, msg):
        raise Violation(sub, "%s (writer %s)" % (msg, writer))

    if dec["problems"]:
        bad("spec-conformance", "; ".join(dec["problems"]))
    at = dec["attrs"]
    if at["format-version"] != (2, 1):
        bad("format-version", repr(at["format-version"]))
    if at["shape"] != (n, m):
        bad("shape", "shape attribute %r, table is %d x %d" %
            (at["shape"], n, m))
    dense = src["rows"] if n and m else [[0.0] * m for _ in range(n)]
    nnz = sum(1 for row in dense for x in row if x != 0)
    if at["nnz"] != nnz:
        bad("nnz", "nnz attribute %d, table has %d non-zero cells" %
            (at["nnz"], nnz))
    if dec["csr_dense"] != dense:
        bad("csr-copy", "observation/matrix decodes to %r, table is %r" %
            (dec["csr_dense"], dense))
    if dec["csc_dense"] != dense:
        bad("csc-copy", "sample/matrix decodes to %r, table is %r" %
            (dec["csc_dense"], dense))
    for axis, key in (("observation", "obs"), ("sample", "samp")):
        if dec[axis]["ids"] != src[key]:
            bad("ids", "%s/ids %r, table ids %r" % (axis, dec[axis]["ids"],
                                                    src[key]))
        md = src[key + "_md"]
        mdn = observe.norm_md(md)
        cats = set(mdn[0]) if mdn else set()
        got_cats = {c.replace("@@SLASH@@", "/")
                    for c in dec[axis]["metadata"]}
        if got_cats != cats:
            bad("metadata-categories", "%s: datasets %r, categories %r" %
                (axis, sorted(got_cats), sorted(cats)))
        for c, col in dec[axis]["metadata"].items():
            cat = c.replace("@@SLASH@@", "/")
            want = _expected_md_column(mdn, cat)
            listy = cat in h5spec.LIST_CATEGORIES
            if not _col_equal(col, want, listy):
                bad("metadata-values", "%s/metadata/%s holds %r, table has "
                    "%r" % (axis, c, col, want))
        gm = c01.gmd_payloads(t.group_metadata(axis))
        got = {k: v["value"] for k, v in dec[axis]["group_metadata"].items()}
        for k, v in dec[axis]["group_metadata"].items():
            want_dt = (t.group_metadata(axis) or {}).get(k)
            want_dt = want_dt[0] if isinstance(want_dt, (list, tuple)) \
                else None
            if want_dt is not None and v.get("data_type") != want_dt:
                bad("group-metadata", "%s/group-metadata/%s has data_type "
                    "%r, the table says %r" % (axis, k, v.get("data_type"),
                                               want_dt))
        if got != gm:
            bad("group-metadata", "%s: %r != %r" % (axis, got, gm))
    want_id = src["table_id"] if src["table_id"] else "No Table ID"
    if at["id"] != want_id:
        bad("id", "%r != %r" % (at["id"], want_id))
    if writer != "convert":
        if at["type"] != (src["type"] or ""):
            bad("type", "%r != %r" % (at["type"], src["type"]))
        if at["generated-by"] != gen_by:
            bad("generated-by", "%r != %r" % (at["generated-by"], gen_by))
        if case.get("date_mode", "explicit") == "explicit" and \
                at["creation-date"] != c01.date_from_json(
                    case["date"]).isoformat():
            bad("creation-date", repr(at["creation-date"]))
    try:
        datetime.fromisoformat(at["creation-date"])
    except Exception:
        bad("creation-date", "not ISO 8601: %r" % at["creation-date"])
    if "T" not in at["creation-date"]:
        bad("creation-date", "not ISO 8601 (no 'T' between date and time): "
            "%r" % at["creation-date"])
    if at["format-url"] != "http://biom-format.org":
        bad("format-url", repr(at["format-url"]))
    if n and m and writer != "convert" and len(gen_by) % 3 == 1:
        # the same object written again after an in-place edit: the new file
        # describes what the table holds now, in both copies
        ax = "observation" if len(gen_by) % 2 else "sample"
        t.transform(lambda v, i, md: v * 2 + 1, axis=ax, inplace=True)
        now = observe.snapshot(t)
        with h5spec.mem_file() as f:
            t.to_hdf5(f, gen_by, compress=case["compress"])
            dec2 = h5spec.decode(f)
            # ... and once more into the group that already holds it: the
            # library may refuse; if it accepts, the group holds the table
            t3 = t.transform(lambda v, i, md: v * 4 - 1, axis=ax,
                             inplace=False)
            try:
                t3.to_hdf5(f, gen_by, compress=case["compress"])
                dec3 = h5spec.decode(f)
            except Exception:
                dec3 = None
        rec.cls("written-again-after-in-place-edit")
        rec.cls("write-into-a-group-holding-a-table:%s" %
                ("refused" if dec3 is None else "accepted"))
        if dec3 is not None:
            now3 = observe.snapshot(t3)
            for key in ("csr_dense", "csc_dense"):
                if dec3["problems"] or dec3[key] != now3["rows"]:
                    bad("stale-content-after-second-write", "to_hdf5 into a "
                        "group that already held a table was accepted, but "
                        "%s decodes to %r (problems %r); written: %r" %
                        (key, dec3[key], dec3["problems"], now3["rows"]))
        if dec2["problems"]:
            bad("spec-conformance", "second write: " +
                "; ".join(dec2["problems"]))
        for key in ("csr_dense", "csc_dense"):
            if dec2[key] != now["rows"]:
                bad("stale-copy-after-edit", "after an in-place transform "
                    "along %s and a second to_hdf5, %s decodes to %r, the "
                    "table holds %r" % (ax, key, dec2[key], now["rows"]))
    noncanon = lay.get("sorted") is False or lay.get("format") != "csr"
    rec.nt((nnz >= 1 and (noncanon or src["obs_md"] is not None or
                          src["samp_md"] is not None)) or n == 0 or m == 0)


# ---------------------------------------------------------------------------
# pinned large cases: index arrays past 2**15 entries (the format's index
# type is 32-bit whatever the size), on either axis

def _large(n, m, dense):
    rows = [[float((i * 31 + j * 17) % 89 + 1) if dense or (i + j) % 977 == 0
             else 0.0 for j in range(m)] for i in range(n)]
    return {"table": {"obs": ["o%d" % i for i in range(n)],
                      "samp": ["s%d" % j for j in range(m)], "rows": rows,
                      "shape": [n, m], "obs_md": None, "samp_md": None,
                      "type": None, "table_id": None, "form": "dense",
                      "history": [], "obs_gmd": None, "samp_gmd": None},
            "origin": "memory", "compress": False, "writer": "to_hdf5",
            "generated_by": "vf", "date": c01.date_to_json(
                datetime(2020, 1, 2, 3, 4, 5)),
            "sub": False, "date_mode": "explicit"}


# ... and array lengths one past a power of two (block-wise writers)
REGRESSIONS = [_large(182, 182, True), _large(32769, 1, False),
               _large(2, 32770, False), _large(4096, 1, False),
               _large(1, 8192, False), _large(4097, 1, True),
               _large(1025, 1, True), _large(257, 255, True),
               _large(65537, 1, True)]
