"""C07 - non-in-place operations never modify their inputs; in-place is
equivalent."""
from hypothesis import strategies as st

from .. import gen, ops, observe, alphabet
from ..core import Violation

ID = "C07"
LEVEL = "exploration"
RULE = ("table x history x one operation of the full alphabet (vf/alphabet.py:"
        " every op with an inplace flag, every new-table op, with generated "
        "arguments and auxiliary argument tables); oracle = deep snapshots of "
        "receiver and arguments before/after the call and after a battery of "
        "in-place edits of every returned table, plus inplace=True on a "
        "fresh copy must return the receiver and equal the inplace=False "
        "result; non-trivial = the op changed content (result differs from "
        "receiver) on a table with >= 1 non-zero; distinct = canonical hash")
BUDGET = {"quick": {"shards": 16, "examples": 250},
          "thorough": {"shards": 16, "examples": 5000}}
ASSUMPTIONS = ["snapshot via deepcopy + toarray is trusted",
               "'in-place changes to the result' are mutating table "
               "operations, not mutation of nested metadata value objects"]


@st.composite
def cases(draw, tier):
    kind = draw(st.sampled_from(["count", "count", "int", "posdyadic",
                                 "dyadic", "frac"]))
    spec = draw(gen.table_specs(tier, values=kind, md=True, history=True))
    op = draw(alphabet.op_strategy())
    if draw(st.sampled_from([False] * 7 + [True])):
        # the value-reading kernels on a receiver whose other axis was
        # reordered (unsorted indices survive copy()): in-place and
        # non-in-place must still agree
        op = {"op": "filter", "axis": "observation", "mask": draw(ops.MASK),
              "invert": draw(st.booleans()), "inplace": False,
              "how": "pred_value"}
        spec["history"] = spec["history"] + [{
            "op": "sort", "axis": "sample", "key": draw(ops.KEY)}]
    if op["op"] in ("filter", "transform", "rankdata", "norm") and \
            draw(st.booleans()):
        # kernels that walk the stored entries: let them find the indices a
        # reordering leaves behind
        spec["history"] = spec["history"] + [{
            "op": "sort", "axis": draw(st.sampled_from(
                ["sample", "sample", "observation"])),
            "key": draw(ops.KEY)}]
    return {"table": spec, "op": op,
            "gmd": draw(st.sampled_from([False, False, True]))}


def strategy(tier):
    return cases(tier)


def _same(a, b):
    return a == b


def battery(r):
    """In-place edits of a returned table through public mutating calls."""
    if r.is_empty():
        return
    # (first along the axis the table's current layout serves in place)
    for axis in (("observation", "sample") if r.matrix_data.format == "csr"
                 else ("sample", "observation")):
        r.transform(lambda v, i, md: v * 2 + 1, axis=axis, inplace=True)
    for axis in ("observation", "sample"):
        ids = [str(i) for i in r.ids(axis=axis)]
        r.add_metadata({i: {"leak": "L", "k": "overwritten"} for i in ids},
                       axis=axis)
        # a rename that keeps every ID's width (fits arrays in place), then
        # one that lengthens
        same = {i: (i[:-1] + ("~" if i[-1] != "~" else "^")) for i in ids}
        if len(set(same.values())) == len(ids):
            r.update_ids(same, axis=axis, inplace=True)
            ids = [same[i] for i in ids]
        r.update_ids({i: i + "~" for i in ids}, axis=axis, inplace=True)
    r.del_metadata(keys=["grp", "n", "taxonomy"], axis="whole")
    for axis in ("observation", "sample"):
        r.add_group_metadata({"tree": ("newick", "(edited);"),
                              "added": ("text", "x")}, axis=axis)
    for axis in ("observation", "sample"):
        ids = [str(i) for i in r.ids(axis=axis)]
        if len(ids) > 1:
            r.filter(ids[1:], axis=axis, inplace=True)
    r.pa(inplace=True)


def check(case, rec):
    op = case["op"]
    name = op["op"]
    t = gen.build(case["table"], rec=rec)
    if case.get("gmd"):
        # the receiver carries group metadata (a tree per axis)
        t.add_group_metadata({"tree": ("newick", "((a,b),c);")},
                             axis="observation")
        t.add_group_metadata({"tree": ("newick", "(s);"),
                              "graph": ("text", "g")}, axis="sample")
    before = observe.snapshot(t)
    lay = observe.layout(t)
    rec.cls("fmt:%s" % lay.get("format"))
    rec.cls("unsorted", lay.get("sorted") is False)

    flagged = name in alphabet.HAS_INPLACE
    if name in ("add_metadata", "del_metadata"):
        rec.skip("op without a non-in-place form")
        return
    op_new = dict(op)
    if flagged:
        op_new["inplace"] = False
    out = alphabet.apply(t, op_new)
    if out.skipped:
        rec.skip("%s:%s" % (name, out.skipped))
        return
    rec.cls("op:" + name)
    args_before = [observe.snapshot(a) for a in out.args]

    # 1. receiver and arguments unchanged by the call
    after = observe.snapshot(t)
    if after != before:
        raise Violation("receiver-modified", "%s(inplace=False) changed its "
                        "receiver: %r -> %r" % (name, before, after))
    for r in out.results:
        if r is t:
            raise Violation("returned-receiver", "%s returned its receiver "
                            "instead of a new table" % name)
    res_snaps = [observe.snapshot(r) for r in out.results]

    # 2. in-place variant: returns the receiver, same final state
    if flagged:
        t2 = gen.build(case["table"])
        op_in = dict(op)
        op_in["inplace"] = True
        out2 = alphabet.apply(t2, op_in)
        if out2.result is not t2:
            raise Violation("inplace-identity", "%s(inplace=True) did not "
                            "return the receiver" % name)
        s_in = observe.snapshot(t2)
        s_new = res_snaps[0]
        for k in ("obs", "samp", "rows", "obs_md", "samp_md", "type"):
            a, b = s_in[k], s_new[k]
            if k.endswith("_md"):
                a, b = observe.norm_md(a), observe.norm_md(b)
            if a != b:
                raise Violation("inplace-differs", "%s: inplace=True leaves "
                                "%s=%r, inplace=False returns %r" %
                                (name, k, s_in[k], s_new[k]))

    # 3. later in-place changes to the result never show in the original
    for r in out.results:
        battery(r)
    after = observe.snapshot(t)
    if after != before:
        raise Violation("result-aliases-receiver", "editing the result of "
                        "%s in place changed the receiver: %r -> %r" %
                        (name, before, after))
    for a, sb in zip(out.args, args_before):
        sa = observe.snapshot(a)
        if sa != sb:
            raise Violation("argument-modified", "%s changed an argument "
                            "table (or its result aliases it): %r -> %r" %
                            (name, sb, sa))
    # the receiver still works
    t_ids = [str(i) for i in t.ids(axis="observation")]
    for k, i in enumerate(t_ids):
        if t.data(i, axis="observation").tolist() != before["rows"][k]:
            raise Violation("receiver-modified", "data(%r) changed" % i)

    changed = any(s["rows"] != before["rows"] or s["obs"] != before["obs"] or
                  s["samp"] != before["samp"] for s in res_snaps)
    has_nz = any(x != 0 for row in before["rows"] for x in row)
    rec.nt(changed and has_nz)
    rec.cls("aliasing-layout", (lay.get("format") == "csr" and
                                op.get("axis") == "observation") or
            (lay.get("format") == "csc" and op.get("axis") == "sample"))
