"""C03 - classic tab-separated export/import round trip preserves IDs and
values (and one exported observation-metadata category)."""
import gzip
import io
import os
import tempfile

import numpy as np
from hypothesis import strategies as st

from .. import gen, observe, ops
from ..core import Violation
from . import c01
from ..cli import SUB

ID = "C03"
LEVEL = "exploration"
RULE = ("table with TSV-safe IDs (no tab / line boundary, no leading '#', no "
        "leading/trailing blanks; otherwise arbitrary Unicode, numeric-looking"
        " and spaced IDs included), wild float64 values, optional exported "
        "observation-metadata category whose text is non-numeric by "
        "construction, 1xM / Nx1 shapes, x form x history x exporter "
        "{to_tsv, str, to_tsv(direct_io), convert --to-tsv} x importer "
        "{from_tsv(list of lines), from_tsv(StringIO), load_table(path), "
        "load_table(gzip path), from_tsv(readlines), convert --to-json / "
        "--to-hdf5 --process-obs-metadata}; oracle = IDs in order, dense ==, "
        "category equal after the inverse processing function; non-trivial ="
        " exponent-notation value, single row/column, exported category or a"
        " numeric-looking / spaced / non-ASCII ID; distinct = hash")
BUDGET = {"quick": {"shards": 16, "examples": 250},
          "thorough": {"shards": 16, "examples": 6000}}
FUZZ_SECONDS = 120   # thorough tier: atheris campaign on the same property
ASSUMPTIONS = ["the text handed to the importer is exactly what the exporter "
               "produced (optionally with one final newline when stored in a "
               "file)"]
TMP = c01.TMP

_LETTERS = "abcdefghijklmnopqrstuvwxyzKPCOFGS"
TAX_ELEM = st.tuples(st.sampled_from(["k__", "p__", "c__", "g__", "s__",
                                      "x"]),
                     st.text(gen._ASCII + " é:|[]'\"", max_size=6)).map(
    lambda t: (t[0] + t[1]).strip())
NAIVE = st.one_of(
    st.tuples(st.sampled_from(list(_LETTERS)),
              st.text(gen._ASCII + " é;:|,", max_size=8)).map(
        lambda t: (t[0] + "_" + t[1]).strip()),
    st.sampled_from(["", "", "unknown", "1_0x", "e5", "-", "."]))
COLNAME = st.one_of(st.sampled_from(["taxonomy", "Consensus Lineage",
                                     "KEGG", "md"]),
                    gen.id_text("tsv"))


@st.composite
def cases(draw, tier):
    shape = draw(st.one_of(gen.shapes(tier), gen.shapes(tier),
                           st.tuples(st.just(1), st.integers(1, 5)),
                           st.tuples(st.integers(1, 5), st.just(1))))
    idk = draw(st.sampled_from(["tsv", "tsv", "simple"]))
    spec = draw(gen.table_specs(tier, values="wild", ids=idk, md=False,
                                history=True, types=False, shape=shape,
                                poke=True, f32=True))
    md = draw(st.sampled_from(["none", "none", "taxonomy", "naive"]))
    big = draw(st.sampled_from([False] * 29 + [True]))
    if big:
        # one axis past 256 entries (block-wise writers/readers)
        spec = draw(gen.big_specs(md="none", values="dyadic"))
        md = draw(st.sampled_from(["none", "taxonomy"]))
    n = len(spec["obs"])
    colname = None
    if md == "taxonomy" and big:
        spec["obs_md"] = [{"tax": ["k__%d" % (i % 7), "s__%d" % i],
                           "other": "zz"} for i in range(n)]
    elif md == "taxonomy":
        spec["obs_md"] = [{"tax": draw(st.lists(TAX_ELEM, min_size=1,
                                                max_size=4)),
                           "other": "zz"} for _ in range(n)]
        for m_ in spec["obs_md"]:
            # blanks inside a level name are part of the name
            if draw(st.integers(0, 5)) == 0:
                m_["tax"][0] = draw(st.sampled_from(
                    ["k__A  b", "k__A\u00a0b", "g__x \u2003y", "s__a   z"]))
            # an unnamed level inside a lineage (k__A; ; c__C)
            if len(m_["tax"]) >= 3 and draw(st.integers(0, 3)) == 0:
                m_["tax"][1] = ""
    elif md == "naive":
        spec["obs_md"] = [{"tax": draw(NAIVE), "other": "zz"}
                          for _ in range(n)]
    if md != "none":
        colname = draw(COLNAME)
        if colname in spec["samp"]:
            colname = colname + "_md"
        if md == "naive" and colname in ("taxonomy", "Taxonomy",
                                         "KEGG_Pathways", "collapsed_ids"):
            # reserved hierarchical names are list-valued by definition
            colname = colname + "_text"
        # the history must not rename/transpose away the metadata axis
        spec["history"] = [o for o in spec["history"]
                           if o["op"] not in ("transpose",)]
    if md == "none" and len(spec["samp"]) >= 2 and \
            draw(st.sampled_from([False] * 11 + [True])):
        # a *sample* may be called like a lineage column
        nm = draw(st.sampled_from(["taxonomy", "Taxonomy", "KEGG_Pathways",
                                   "Consensus Lineage", "ConsensusLineage",
                                   "OTU Metadata", "metadata"]))
        if nm not in spec["samp"]:
            spec["samp"] = spec["samp"][:-1] + [nm]
            spec["history"] = [o for o in spec["history"]
                               if o["op"] not in ("transpose", "rename")]
    return {"table": spec, "md": md, "colname": colname,
            # the label of the ID column (API exports only)
            "obs_col": draw(st.sampled_from(["#OTU ID", "#OTU ID", "Taxon",
                                             "#Gene", "Feature ID"])),
            "export": draw(st.sampled_from(["to_tsv", "str", "direct_io",
                                            "convert", "convert_api"])),
            "import": draw(st.sampled_from(["lines", "stringio", "path",
                                            "path_nl", "gzip", "readlines",
                                            "convert_json",
                                            "convert_hdf5"])),
            "sub": draw(st.sampled_from(SUB))}


def strategy(tier):
    return cases(tier)


def _join(x):
    return "; ".join(x)


def _split(x):
    return [e.strip() for e in x.split(";")]


def export(t, case, d):
    md, col = case["md"], case["colname"]
    how = case["export"]
    if md != "none" and how == "str":
        how = "to_tsv"
    kw = {}
    if md != "none":
        kw = {"header_key": "tax", "header_value": col,
              "metadata_formatter": _join if md == "taxonomy" else
              (lambda x: x)}
    if case.get("obs_col", "#OTU ID") != "#OTU ID" and how != "str":
        kw["observation_column_name"] = case["obs_col"]
    if how == "to_tsv":
        return t.to_tsv(**kw)
    if how == "str":
        return str(t)
    if how == "direct_io":
        sio = io.StringIO()
        t.to_tsv(direct_io=sio, **kw)
        return sio.getvalue()
    if how == "convert_api":
        # the library function behind the command, on a file of the table
        from biom.parse import convert_biom_to_table
        src = os.path.join(d, "export-src.biom")
        with open(src, "w", encoding="utf8") as f:
            f.write(t.to_json("vf"))
        if md == "none":
            return convert_biom_to_table(src)
        return convert_biom_to_table(src, "tax", col,
                                     kw["metadata_formatter"])
    # the real `biom convert --to-tsv` command on a JSON file of the table
    from ..cli import command
    convert = command("convert")
    src = os.path.join(d, "export-src.biom")
    with open(src, "w", encoding="utf8") as f:
        f.write(t.to_json("vf"))
    out = os.path.join(d, "exported.tsv")
    args = ["-i", src, "-o", out, "--to-tsv"]
    if md != "none":
        args += ["--header-key", "tax", "--output-metadata-id", col,
                 "--tsv-metadata-formatter",
                 "sc_separated" if md == "taxonomy" else "naive"]
    run_click(convert, "convert", args, case.get("sub", False))
    with open(out, encoding="utf8") as f:
        return f.read()


def run_click(cmd, name, args, sub=False):
    from ..cli import invoke
    rc, out = invoke(cmd, name, args, sub)
    if rc != 0:
        raise Violation("cli-exit", "biom %s %s exited %r: %s" %
                        (name, args, rc, out[-300:]))


def _from_list(lines, pf):
    """Import a caller-owned list of lines; the list is the caller's (it is
    left as it was, and importing it again gives the same table)."""
    from biom import Table
    held = list(lines)
    t = Table.from_tsv(lines, None, None, pf)
    if lines != held:
        raise Violation("input-modified", "from_tsv changed the list of "
                        "lines it was given: %r -> %r" % (held, lines))
    return t


def importer(text, case, d):
    from biom import Table, load_table
    how = case["import"]
    md = case["md"]
    if how == "convert_hdf5" and md == "taxonomy" and any(
            "" in (m.get("tax") or []) for m in case["table"]["obs_md"] or []):
        # HDF5 holds lists of *non-empty* text (the empty string is its
        # padding): an unnamed lineage level cannot take that route
        how = "convert_json"
    pf = _split if md == "taxonomy" else (lambda x: x)
    if how in ("convert_hdf5",) and md == "taxonomy" and \
            case["colname"] != "taxonomy":
        how = "convert_json"   # HDF5 stores lists only under 'taxonomy'
    if how == "lines":
        # the lines of the text; a final newline terminates the last line, it
        # does not start an extra empty one
        body = text[:-1] if text.endswith("\n") else text
        return _from_list(body.split("\n"), pf), how
    if how == "stringio":
        return Table.from_tsv(io.StringIO(text), None, None, pf), how
    if how == "readlines":
        return _from_list(io.StringIO(text).readlines(), pf), how
    # (a gzip file is one by content, whatever it is called)
    p = os.path.join(d, ["in.tsv", "in.txt", "in"][len(text) % 3])
    if how == "gzip":
        p += [".gz", ".gz", "", ".GZ"][(len(text) // 3) % 4]
    if len(text) % 3 == 0:
        # the path held (and was loaded with) different content a moment ago
        with (gzip.open(p, "wt", encoding="utf8") if how == "gzip"
              else open(p, "w", encoding="utf8")) as f:
            f.write("# Constructed from biom file\n#OTU ID\tearlier-s1\t"
                    "earlier-s2\nearlier-o1\t5.0\t0.0\nearlier-o2\t0.0\t"
                    "7.0\n")
        load_table(p)
        os.remove(p)
    if how == "gzip":
        with gzip.open(p, "wt", encoding="utf8", newline="") as f:
            f.write(text)
    else:
        with open(p, "w", encoding="utf8", newline="") as f:
            f.write(text + ("\n" if how == "path_nl" and
                            not text.endswith("\n") else ""))
    if how in ("path", "path_nl", "gzip"):
        t = load_table(p)
        if len(text) % 2 and not t.is_empty():
            # what was loaded is edited in place, then the path is loaded
            # again: it still holds the same table
            t.transform(lambda v, i, md_: v * 2 + 1, axis="observation",
                        inplace=True)
            t = load_table(p)
        if md != "none":
            # load_table keeps the raw text; apply the inverse ourselves
            col = case["colname"]
            t.add_metadata({i: {col: pf(t.metadata(i, "observation")[col])}
                            for i in t.ids(axis="observation")},
                           axis="observation")
        return t, how
    from ..cli import command
    convert = command("convert")
    out = os.path.join(d, "out.biom")
    args = ["-i", p, "-o", out,
            "--to-json" if how == "convert_json" else "--to-hdf5"]
    if md != "none":
        args += ["--process-obs-metadata",
                 "taxonomy" if md == "taxonomy" else "naive"]
    run_click(convert, "convert", args, case.get("sub", False))
    return load_table(out), how


def check(case, rec):
    spec = case["table"]
    t = gen.build(spec, rec=rec)
    src = observe.snapshot(t)
    if not observe.all_finite(src):
        rec.skip("history overflowed to a non-finite value")
        return
    if case["md"] != "none" and (src["obs_md"] is None or
                                 any("tax" not in m for m in src["obs_md"])):
        rec.skip("history removed the exported category")
        return
    lay = observe.layout(t)
    rec.cls("unsorted", lay.get("sorted") is False)
    rec.cls("fmt:%s" % lay.get("format"))
    rec.cls("export:" + case["export"])
    rec.cls("md:" + case["md"])
    with tempfile.TemporaryDirectory(prefix="vf-c03-", dir=TMP) as d:
        text = export(t, case, d)
        r, how = importer(text, case, d)
        got = observe.snapshot(r)
        observe.check_lookups(r, got, "loaded table")
    rec.cls("import:" + how)

    def bad(sub, msg):
        raise Violation(sub, "%s [export %s, import %s] text=%r" %
                        (msg, case["export"], how, text[:400]))

    if got["obs"] != src["obs"]:
        bad("obs-ids", "%r != %r" % (got["obs"], src["obs"]))
    if got["samp"] != src["samp"]:
        bad("sample-ids", "%r != %r" % (got["samp"], src["samp"]))
    if got["rows"] != src["rows"]:
        bad("values", "%r != %r" % (got["rows"], src["rows"]))
    if case["md"] != "none":
        col = case["colname"]
        want = [m["tax"] for m in src["obs_md"]]
        gm = got["obs_md"]
        if gm is None or [m.get(col) for m in gm] != want:
            bad("metadata", "category %r read back as %r, exported %r" %
                (col, gm, want))
    elif got["obs_md"] is not None:
        bad("metadata", "metadata appeared: %r" % (got["obs_md"],))

    vals = [x for row in src["rows"] for x in row if x != 0]
    ids = src["obs"] + src["samp"]

    def numlike(s):
        try:
            float(s)
            return True
        except ValueError:
            return False
    rec.cls("exponent-value", any("e" in repr(v) for v in vals))
    rec.cls("single-row-or-col", len(src["obs"]) == 1 or
            len(src["samp"]) == 1)
    rec.cls("odd-id", any(numlike(i) or " " in i or not i.isascii()
                          for i in ids))
    rec.nt(any("e" in repr(v) for v in vals) or len(src["obs"]) == 1 or
           len(src["samp"]) == 1 or case["md"] != "none" or
           any(numlike(i) or " " in i or not i.isascii() for i in ids))


REGRESSIONS = [
    {"table": {"obs": ["a", "b"], "samp": ["x"], "rows": [[0.0], [0.0]],
               "obs_md": None, "samp_md": None, "type": None, "form": "dense",
               "history": []},
     "md": "none", "colname": None, "export": "to_tsv", "import": "lines"},
    # the real `biom convert` process, both directions
    {"table": {"obs": ["o 1", "é2"], "samp": ["1", "s#2", "x"],
               "rows": [[1e-7, 0.0, 2.5], [0.0, 3.0, 1e300]],
               "obs_md": [{"tax": ["k__A", "p__B"], "other": "zz"},
                          {"tax": ["k__C"], "other": "zz"}],
               "samp_md": None, "type": None, "form": "dense", "history": []},
     "md": "taxonomy", "colname": "taxonomy", "export": "convert",
     "import": "convert_hdf5", "sub": True},
]


def _long(n, m, export_, import_):
    """Pinned cases with one axis one past a power of two (writers that
    stream or work block-wise beyond some size)."""
    rows = [[float((i * 31 + j * 17) % 89) / 4 if (i + j) % 3 else 0.0
             for j in range(m)] for i in range(n)]
    return {"table": {"obs": ["o%d" % i for i in range(n)],
                      "samp": ["s%d" % j for j in range(m)], "rows": rows,
                      "obs_md": None, "samp_md": None, "type": None,
                      "form": "dense", "history": []},
            "md": "none", "colname": None, "export": export_,
            "import": import_}


REGRESSIONS += [_long(8193, 2, "convert", "path"),
                _long(2, 8193, "convert", "gzip"),
                _long(16385, 1, "direct_io", "lines"),
                _long(4097, 3, "convert_api", "stringio")]
