"""C05 - a table stays internally coherent after every sequence of
operations (model-based / stateful)."""
import itertools
import math
from copy import deepcopy

import numpy as np
from hypothesis import strategies as st

from .. import gen, ops, observe, alphabet
from ..core import Violation

ID = "C05"
LEVEL = "exploration"
RULE = ("start table x sequence of 1..10 operations drawn from the full "
        "public alphabet (vf/alphabet.py) with generated arguments on both "
        "axes; the coherence invariant (shape/IDs/index/metadata/every "
        "accessor vs the dense matrix of a deep copy) is checked after every "
        "step; non-trivial = >= 2 applied state-changing steps of which one "
        "re-indexes or re-lays-out; distinct = canonical hash. Exhaustive "
        "sub-run: all sequences up to the stated depth over a finite "
        "alphabet of concrete operation instances on 3 start tables")
BUDGET = {"quick": {"shards": 16, "examples": 120},
          "thorough": {"shards": 16, "examples": 3000}}
ASSUMPTIONS = ["operations are only applied inside their documented domain "
               "(see vf/alphabet.py preconditions); an operation on an empty "
               "table is not generated (known finding collapse-empty-axis)"]

RELAYOUT = {"filter", "drop_all", "sort", "sort_order", "update_ids", "transform",
            "subsample", "concat", "merge", "remove_empty", "transpose",
            "norm", "pa", "rankdata", "collapse", "partition", "align_to",
            "head"}


@st.composite
def cases(draw, tier):
    kind = draw(st.sampled_from(["count", "count", "int", "posdyadic"]))
    spec = draw(gen.table_specs(tier, values=kind, md=True, history=False))
    if draw(st.sampled_from([False] * 7 + [True])):
        # IDs that begin or end with a blank (an ID is the whole text)
        for key in ("obs", "samp"):
            pad = draw(st.sampled_from(["%s ", " %s", "%s\t", " %s "]))
            cand = pad % spec[key][-1]
            if cand not in spec[key]:
                spec[key] = spec[key][:-1] + [cand]
    steps = draw(st.lists(alphabet.op_strategy(), min_size=1,
                          max_size=6 if tier == "quick" else 10))
    return {"table": spec, "steps": steps, "phase": draw(st.integers(0, 7)),
            "blind": draw(st.sampled_from([False, False, True])),
            "sibling": draw(st.sampled_from([False, False, True]))}


def strategy(tier):
    return cases(tier)


def close(a, b):
    return math.isclose(a, b, rel_tol=1e-9, abs_tol=1e-12)


def invariant(t, seen, what, phase=0):
    """Coherence of `t`.  Ground truth is the dense matrix of a deep copy
    (reading a copy leaves the table's layout and any cached state alone);
    the accessor groups then run in an order rotated by `phase`, so that
    every group is, for some step, the first thing that touches the table
    after an operation (a stale cache is only visible to the first reader)."""
    from biom.exception import UnknownIDError
    c = deepcopy(t)
    D = np.asarray(c.matrix_data.toarray(), dtype=float)
    obs = [str(i) for i in t.ids(axis="observation")]
    samp = [str(i) for i in t.ids(axis="sample")]
    n, m = len(obs), len(samp)

    def bad(sub, msg):
        raise Violation(sub, "after %s: %s" % (what, msg))

    if tuple(t.shape) != (n, m) or tuple(D.shape) != (n, m):
        bad("shape", "shape %r, matrix %r, ids %d x %d" %
            (tuple(t.shape), tuple(D.shape), n, m))
    if t.length("observation") != n or t.length("sample") != m:
        bad("length", "length() disagrees with ids")
    for axis, ids in (("observation", obs), ("sample", samp)):
        if len(set(ids)) != len(ids):
            bad("unique-ids", "%s ids %r" % (axis, ids))
        for k, i in enumerate(ids):
            if not t.exists(i, axis=axis):
                bad("exists", "current %s id %r reported unknown" % (axis, i))
            if t.index(i, axis) != k:
                bad("index", "index(%r,%s)=%r, position %d" %
                    (i, axis, t.index(i, axis), k))
        cur = set(ids)
        near = set()
        if ids:
            longest = max(ids, key=len)
            # near misses of a current ID are unknown too (fixed-width ID
            # arrays must not clip a query into a known ID)
            near = {longest + "2", longest + " ", longest[:-1],
                    longest.swapcase(), " " + longest} - cur
        for i in sorted((seen | near) - cur):
            if t.exists(i, axis=axis):
                bad("stale-id", "%r is not a current %s id but exists() is "
                    "True" % (i, axis))
            try:
                t.index(i, axis)
            except UnknownIDError:
                pass
            else:
                bad("stale-id", "index(%r,%s) did not raise UnknownIDError" %
                    (i, axis))
        md = t.metadata(axis=axis)
        if md is not None and len(md) != len(ids):
            bad("metadata-length", "%s metadata has %d entries for %d ids" %
                (axis, len(md), len(ids)))
    if n == 0 or m == 0:
        return
    nz = {(obs[i], samp[j]) for i in range(n) for j in range(m)
          if D[i, j] != 0}

    def g_counts():
        if t.nnz != len(nz):
            bad("nnz", "nnz=%r, non-zero cells %d" % (t.nnz, len(nz)))
        if not close(t.get_table_density(), len(nz) / float(n * m)):
            bad("density", "density %r, expected %r" %
                (t.get_table_density(), len(nz) / float(n * m)))
        r = repr(t)
        if "%d x %d" % (n, m) not in r or \
                "with %d nonzero entries" % len(nz) not in r:
            bad("repr", "repr %r, table is %d x %d with %d non-zero" %
                (r, n, m, len(nz)))

    def g_nzc():
        for axis, want_b, want_s in (
                ("sample", (D != 0).sum(axis=0), D.sum(axis=0)),
                ("observation", (D != 0).sum(axis=1), D.sum(axis=1)),
                ("whole", np.array([(D != 0).sum()]), np.array([D.sum()]))):
            got = np.asarray(t.nonzero_counts(axis)).ravel().tolist()
            if got != want_b.astype(float).tolist():
                bad("nonzero_counts", "nonzero_counts(%s)=%r, matrix %r" %
                    (axis, got, want_b.tolist()))
            got = np.asarray(t.nonzero_counts(axis, binary=False)).ravel()
            if len(got) != len(want_s) or not np.allclose(
                    got, want_s, rtol=1e-12, atol=0.0):
                bad("nonzero_counts", "nonzero_counts(%s, binary=False)=%r,"
                    " matrix %r" % (axis, got.tolist(), want_s.tolist()))

    def g_data(axis):
        def f():
            ids = obs if axis == "observation" else samp
            for k, i in enumerate(ids):
                # the dense and the sparse form of the same accessor
                if (phase + k) % 3 == 2:
                    v = np.asarray(t.data(i, axis=axis,
                                          dense=False).toarray()).ravel()
                else:
                    v = t.data(i, axis=axis)
                want = D[k, :] if axis == "observation" else D[:, k]
                if v.tolist() != want.tolist():
                    bad("data", "data(%r, %s)=%r, matrix vector %r" %
                        (i, axis, v.tolist(), want.tolist()))
        return f

    def g_cells():
        for a, o in enumerate(obs):
            for b, s in enumerate(samp):
                if float(t.get_value_by_ids(o, s)) != D[a, b]:
                    bad("cell", "get_value_by_ids(%r,%r)=%r, matrix %r" %
                        (o, s, t.get_value_by_ids(o, s), D[a, b]))

    def g_iter(axis):
        def f():
            ids = obs if axis == "observation" else samp
            vec = (lambda k: D[k, :]) if axis == "observation" else \
                (lambda k: D[:, k])
            md = t.metadata(axis=axis)
            it = list(t.iter(axis=axis))
            if [str(x[1]) for x in it] != ids:
                bad("iter", "iter(%s) ids %r" % (axis, [x[1] for x in it]))
            for k, (v, i, mdk) in enumerate(it):
                if np.asarray(v).tolist() != vec(k).tolist():
                    bad("iter", "iter(%s) vector of %r" % (axis, i))
                want = None if md is None else md[k]
                if mdk is not want and mdk != want:
                    bad("iter", "iter(%s) metadata of %r" % (axis, i))
            if phase % 2:
                itd = [np.asarray(v.toarray()).ravel().tolist()
                       for v in t.iter_data(axis=axis, dense=False)]
            else:
                itd = [np.asarray(v).tolist()
                       for v in t.iter_data(axis=axis)]
            if itd != [vec(k).tolist() for k in range(len(ids))]:
                bad("iter_data", "iter_data(%s) %r" % (axis, itd))
            if len(ids) <= 4:
                # the four documented selections of pairs, rotated
                tri, diag = [(True, False), (False, True), (True, True),
                             (False, False)][(phase + len(ids)) % 4]
                kw = {} if (tri, diag) == (True, False) else \
                    {"tri": tri, "diag": diag}
                pairs = list(t.iter_pairwise(axis=axis, **kw))
                want_pairs = [(a, b) for a in range(len(ids))
                              for b in range(len(ids))
                              if (a != b or diag) and (b >= a or not tri)]
                if [(str(p[0][1]), str(p[1][1])) for p in pairs] != \
                        [(ids[a], ids[b]) for a, b in want_pairs]:
                    bad("iter_pairwise", "%s pairs %r" %
                        (axis, [(p[0][1], p[1][1]) for p in pairs]))
                for p, (a, b) in zip(pairs, want_pairs):
                    if np.asarray(p[0][0]).tolist() != vec(a).tolist() or \
                            np.asarray(p[1][0]).tolist() != vec(b).tolist():
                        bad("iter_pairwise", "%s vectors for %r" %
                            (axis, (a, b)))
        return f

    def g_nonzero():
        lst = [(str(a), str(b)) for a, b in t.nonzero()]
        if len(lst) != len(set(lst)) or set(lst) != nz:
            bad("nonzero", "nonzero() lists %r, non-zero cells are %r" %
                (sorted(lst), sorted(nz)))

    def g_sums():
        # sums are order dependent in floating point: compare within
        # rounding noise of the summed magnitudes (entries may cancel)
        A = np.abs(D)

        def near(a, b, mag):
            return a == b or abs(a - b) <= 1e-12 * max(float(mag), 1e-300)
        if not near(float(t.sum("whole")), float(D.sum()), A.sum()):
            bad("sum", "sum(whole)=%r, matrix %r" % (t.sum("whole"),
                                                     D.sum()))
        for axis, want, mag in (("sample", D.sum(axis=0), A.sum(axis=0)),
                                ("observation", D.sum(axis=1),
                                 A.sum(axis=1))):
            got = np.asarray(t.sum(axis)).tolist()
            if len(got) != len(want) or not all(
                    near(a, b, g) for a, b, g in zip(got, want.tolist(),
                                                     mag.tolist())):
                bad("sum", "sum(%s)=%r, matrix %r" % (axis, got,
                                                      want.tolist()))

    def g_live():
        # a walk that is still going on while the table answers other reads
        try:
            observe.check_live_iteration(t, None, what)
        except Violation as e:
            bad("iter", e.msg)

    groups = [g_counts, g_data("observation"), g_nonzero, g_data("sample"),
              g_sums, g_cells, g_iter("observation"), g_iter("sample"),
              g_nzc]
    if phase % 2 == 0 and 0 < n * m <= 36:
        groups.append(g_live)
    k = phase % len(groups)
    for g in groups[k:] + groups[:k]:
        g()
    # and once more: the first group again after everything else ran
    groups[k]()


def check(case, rec):
    t = gen.build(case["table"], with_history=False)
    seen = set(case["table"]["obs"]) | set(case["table"]["samp"])
    phase = int(case.get("phase", 0))
    pinned = []
    if case.get("sibling"):
        # the re-labelling idiom: a second table built over the first one's
        # matrix is a table of its own.  (Nothing reads `t` first: reading
        # may swap its matrix object.)
        from biom import Table
        sib = Table(t.matrix_data,
                    ["%s'" % i for i in t.ids(axis="observation")],
                    list(t.ids(axis="sample")))
        pinned.append(sib)
        rec.cls("sibling-over-same-matrix")
    else:
        invariant(t, seen, "construction", phase)
    applied = 0
    relayout = 0
    live = []
    blind = bool(case.get("blind"))
    rec.cls("blind-history", blind)
    for k, op in enumerate(case["steps"]):
        receiver = t
        if t.is_empty():
            # operations may refuse an empty table (e.g. "cannot retrieve an
            # element from an empty table"); refusing is not incoherence,
            # but the table must still be coherent afterwards
            try:
                out = alphabet.apply(t, op)
            except Violation:
                raise
            except Exception:
                rec.skip("refused-on-empty:%s" % op["op"])
                invariant(t, seen, "refused step %d %r" % (k, op), phase + k)
                continue
        else:
            out = alphabet.apply(t, op)
        if out.skipped:
            rec.skip("%s:%s" % (op["op"], out.skipped))
            if "refused" in out.skipped and not blind:
                # a refused call leaves the table as coherent as it was
                invariant(t, seen, "refused step %d %r" % (k, op), phase + k)
            continue
        rec.cls("op:" + op["op"])
        applied += 1
        relayout += op["op"] in RELAYOUT
        what = "step %d %r" % (k, op)
        # every table involved stays coherent: receiver, arguments, results
        for x in out.results + out.args + [receiver]:
            seen.update(str(i) for i in x.ids(axis="observation"))
            seen.update(str(i) for i in x.ids(axis="sample"))
        was_empty = bool(receiver.is_empty()) if out.result is not receiver \
            else None
        last = k == len(case["steps"]) - 1
        if blind and not last:
            # "blind" histories: nothing reads the tables between two
            # operations (reading re-lays-out a table and thereby separates
            # objects two tables wrongly share)
            if out.result is not None and out.result is not receiver:
                live.append(receiver)
                del live[:-3]
                t = out.result
            continue
        try:
            for x in out.results:
                invariant(x, seen, what + " (result)", phase + k)
            invariant(receiver, seen, what + " (receiver)", phase + k + 3)
        except Violation as v:
            v.info.update({"op": op["op"], "receiver_empty": was_empty})
            raise
        # tables left behind stay alive in real programs too: a later
        # in-place operation on a result must not make an earlier table
        # incoherent (shared matrix objects, shared lookups)
        for j, old_t in enumerate(pinned + live):
            if old_t is not receiver and not any(old_t is x
                                                 for x in out.results):
                try:
                    invariant(old_t, seen, what + " (table left behind %d "
                              "steps ago)" % (len(pinned + live) - j),
                              phase + k + j)
                except Violation as v:
                    v.info.update({"op": op["op"], "left_behind": True})
                    raise
        if out.result is not None and out.result is not receiver:
            live.append(receiver)
            del live[:-3]
            t = out.result
        if t.is_empty():
            rec.cls("reached-empty")
    rec.cls("len:%d" % min(applied, 6))
    rec.nt(applied >= 2 and relayout >= 1)


# ---------------------------------------------------------------------------
# exhaustive: all sequences over a finite alphabet

M1 = [True, False, True, True, False, True, False, True]
M2 = [False, True, True, False, True, False, True, True]
K1 = [3, 1, 2, 0, 5, 4, 1, 2]
OTH = {"obs_mask": M1, "samp_mask": M2, "key_o": K1, "key_s": K1,
       "extra_o": 1, "extra_s": 1, "md": False, "vseed": 7}
OTH_AL = {"obs_mask": [True] * 8, "samp_mask": [True] * 8, "key_o": K1,
          "key_s": K1, "extra_o": 0, "extra_s": 0, "md": False, "vseed": 3}

EXH_OPS = [
    {"op": "filter", "axis": "sample", "mask": M1, "invert": False,
     "inplace": True, "how": "ids"},
    {"op": "filter", "axis": "observation", "mask": M2, "invert": False,
     "inplace": True, "how": "pred"},
    {"op": "filter", "axis": "sample", "mask": M2, "invert": True,
     "inplace": False, "how": "pred"},
    {"op": "filter", "axis": "observation", "mask": M1, "invert": True,
     "inplace": False, "how": "ids"},
    {"op": "drop_all", "axis": "sample", "inplace": False},
    {"op": "drop_all", "axis": "observation", "inplace": True},
    {"op": "remove_empty", "axis": "whole", "inplace": True},
    {"op": "remove_empty", "axis": "sample", "inplace": False},
    {"op": "head", "n": 2, "m": 2},
    {"op": "sort", "axis": "sample", "f": "default"},
    {"op": "sort", "axis": "observation", "f": "reverse"},
    {"op": "sort_order", "axis": "sample", "key": K1},
    {"op": "sort_order", "axis": "observation", "key": K1},
    {"op": "transpose"},
    {"op": "copy"},
    {"op": "update_ids", "axis": "sample", "style": "lengthen",
     "strict": True, "inplace": True, "mask": M1},
    {"op": "update_ids", "axis": "observation", "style": "shorten",
     "strict": False, "inplace": False, "mask": M1},
    {"op": "update_ids", "axis": "sample", "style": "swap", "strict": True,
     "inplace": True, "mask": M1},
    {"op": "update_ids", "axis": "observation", "style": "collide",
     "strict": True, "inplace": False, "mask": M1},
    {"op": "update_ids", "axis": "sample", "style": "collide_onto",
     "strict": False, "inplace": True, "mask": M1},
    {"op": "transform", "axis": "observation", "fn": "zero_all",
     "inplace": True},
    {"op": "add_metadata", "axis": "sample", "mask": M1, "key": "new",
     "unknown": True},
    {"op": "add_metadata", "axis": "observation", "mask": M2, "key": "k",
     "unknown": False},
    {"op": "del_metadata", "axis": "whole", "keys": None},
    {"op": "del_metadata", "axis": "observation", "keys": ["k"]},
    {"op": "transform", "axis": "sample", "fn": "zero_first",
     "inplace": True},
    {"op": "transform", "axis": "observation", "fn": "mutate_arg",
     "inplace": False},
    {"op": "norm", "axis": "sample", "inplace": True},
    {"op": "norm", "axis": "observation", "inplace": False},
    {"op": "pa", "inplace": True},
    {"op": "rankdata", "axis": "sample", "method": "average",
     "inplace": True},
    {"op": "rankdata", "axis": "observation", "method": "ordinal",
     "inplace": False},
    {"op": "subsample", "axis": "sample", "n": 2, "by_id": False,
     "with_replacement": False, "seed": 5},
    {"op": "subsample", "axis": "observation", "n": 2, "by_id": False,
     "with_replacement": True, "seed": 5},
    {"op": "subsample", "axis": "sample", "n": 2, "by_id": True,
     "with_replacement": False, "seed": 5},
    {"op": "collapse", "axis": "sample", "f": "id_mod2", "norm": False,
     "min_group_size": 1, "include_md": True},
    {"op": "collapse", "axis": "observation", "f": "const", "norm": True,
     "min_group_size": 1, "include_md": False},
    {"op": "partition", "axis": "sample", "f": "id_mod2", "pick": 0,
     "remove_empty": False, "ignore_none": False},
    {"op": "partition", "axis": "observation", "f": "none_some", "pick": 1,
     "remove_empty": True, "ignore_none": True},
    {"op": "partition", "axis": "observation", "f": "const", "pick": 0,
     "remove_empty": False, "ignore_none": False},
    {"op": "merge", "other": OTH, "sample": "union", "observation": "union"},
    {"op": "merge", "other": OTH, "sample": "intersection",
     "observation": "union"},
    {"op": "concat", "other": OTH, "axis": "sample"},
    {"op": "concat", "other": OTH, "axis": "observation"},
    {"op": "align_to", "other": OTH_AL, "axis": "both"},
    {"op": "align_to", "other": OTH_AL, "axis": "detect"},
]

EXH_TABLES = [
    {"obs": ["o1", "o2", "o3"], "samp": ["s1", "s2", "s3"],
     "rows": [[1.0, 0.0, 2.0], [0.0, 0.0, 0.0], [3.0, 4.0, 0.0]],
     "obs_md": [{"k": "a"}, {"k": "b"}, {"k": "a"}], "samp_md": None,
     "type": "OTU table", "form": "dense", "history": []},
    {"obs": ["b", "a"], "samp": ["z", "y", "x10", "x2"],
     "rows": [[5.0, 1.0, 0.0, 2.0], [0.0, 3.0, 0.0, 1.0]],
     "obs_md": None, "samp_md": [{"grp": "g1"}, {"grp": "g2"}, {"grp": "g1"},
                                 {"grp": "g2"}],
     "type": None, "form": "csr_unsorted", "history": []},
    {"obs": ["only"], "samp": ["s"], "rows": [[2.0]], "obs_md": None,
     "samp_md": None, "type": None, "form": "csc", "history": []},
]

DEPTH = {"quick": 2, "thorough": 3}


def ENUM_NAME(tier):
    return ("exhaustive: all operation sequences of length 1..%d over %d "
            "concrete operation instances on %d start tables" %
            (DEPTH[tier], len(EXH_OPS), len(EXH_TABLES)))


def enum_chunks(tier):
    d = DEPTH[tier]
    out = []
    for ti in range(len(EXH_TABLES)):
        for first in range(len(EXH_OPS)):
            if d >= 3:
                for second in range(len(EXH_OPS)):
                    out.append((ti, first, second))
            else:
                out.append((ti, first, None))
    return out


def enum_chunk(tier, chunk):
    ti, first, second = chunk
    tab = EXH_TABLES[ti]
    d = DEPTH[tier]
    for c in _enum_chunk(tier, chunk):
        yield c
        if len(c["steps"]) > 1:
            yield dict(c, blind=True, sibling=True)


def _enum_chunk(tier, chunk):
    ti, first, second = chunk
    tab = EXH_TABLES[ti]
    d = DEPTH[tier]
    ph = (first + (second or 0)) % 8
    if second is None:
        yield {"table": tab, "steps": [EXH_OPS[first]], "phase": ph}
        if d >= 2:
            for j, b in enumerate(EXH_OPS):
                yield {"table": tab, "steps": [EXH_OPS[first], b],
                       "phase": (ph + j) % 8}
    else:
        if second == 0:
            yield {"table": tab, "steps": [EXH_OPS[first]], "phase": ph}
        yield {"table": tab, "steps": [EXH_OPS[first], EXH_OPS[second]],
               "phase": ph}
        for j, c in enumerate(EXH_OPS):
            yield {"table": tab, "steps": [EXH_OPS[first], EXH_OPS[second], c],
                   "phase": (ph + j) % 8}


def _collapse_empty_axis(case, v):
    """collapse() of a table that has an empty axis returns a 0x0 matrix
    under non-empty IDs."""
    return (v.sub == "shape" and v.info.get("op") == "collapse" and
            v.info.get("receiver_empty") is True)


CLASSIFIERS = {"collapse-empty-axis": _collapse_empty_axis}
