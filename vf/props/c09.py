"""C09 - merge is the pointwise sum over the union/intersection of IDs."""
import numpy as np
from hypothesis import strategies as st

from .. import gen, ops, observe
from ..model import Ref
from ..core import Violation

ID = "C09"
LEVEL = "exploration"
RULE = ("2 operands (k = 2..4 for the list form) drawing subsets and orders "
        "of an 8-ID universe (IDs of unequal length) per axis (disjoint, nested, partial, "
        "identical, permuted) x 4 union/intersection modes x metadata on "
        "neither/either/both x metadata function {default, dict-union, "
        "prefer-other, both None (union/union only)} x histories; oracle = "
        "dense model (ID sets, every cell = sum of operand cells, metadata = "
        "f(self_md, other_md), grand total, refusal of an empty "
        "intersection) + fast-path vs general-path differential; "
        "non-trivial = partial overlap on an axis with different ID orders "
        "and >= 1 non-zero; distinct = canonical hash")
BUDGET = {"quick": {"shards": 16, "examples": 250},
          "thorough": {"shards": 16, "examples": 5000}}
ASSUMPTIONS = ["ID order of the result is not part of the property (sets are "
               "compared)", "receivers carry, per axis, either no metadata "
               "or a non-empty mapping on every ID"]

# IDs of unequal length: '<U' arrays sized after one operand must not clip
# the other's
# ... and two names that occur on both axes (an observation and a sample may
# share a name; they are different things)
UNI_O = ["O%d" % i for i in range(6)] + ["O10", "O_longer observation/7",
                                         "7", "X"]
UNI_S = ["S%d" % i for i in range(6)] + ["S10", "S_longer sample.id-7",
                                         "X", "7"]
MODES = st.sampled_from(["union", "intersection"])
MDF = ["default", "dict_union", "prefer_other", "tag", "none"]


@st.composite
def operand(draw, values, with_md, base=None):
    def pick(uni, first):
        how = draw(st.sampled_from(["free", "free", "free", "perm", "same",
                                    "nested", "disjoint"])) if first \
            else "free"
        rest = [u for u in uni if first and u not in first]
        if how == "disjoint" and rest:
            return list(draw(st.lists(st.sampled_from(rest), min_size=1,
                                      max_size=len(rest), unique=True)))
        if how == "perm":       # the same IDs, listed in another order
            return list(draw(st.permutations(first)))
        if how == "same":
            return list(first)
        if how == "nested":
            k = draw(st.lists(st.sampled_from(first), min_size=1,
                              max_size=len(first), unique=True))
            return list(k)
        k = draw(st.lists(st.sampled_from(uni), min_size=1, max_size=6,
                          unique=True))
        return list(k)
    obs = pick(UNI_O, base["obs"] if base else None)
    samp = pick(UNI_S, base["samp"] if base else None)
    rows = draw(gen.matrices(len(obs), len(samp), values))
    spec = {"obs": obs, "samp": samp, "rows": rows, "type": None,
            "form": draw(st.sampled_from(gen.FORMS)),
            "history": draw(ops.histories("read")),
            "obs_md": None, "samp_md": None}
    if with_md in ("obs", "both"):
        spec["obs_md"] = [{"who": draw(st.sampled_from(["a", "b"])),
                           "id": i} for i in obs]
    if with_md in ("samp", "both"):
        spec["samp_md"] = [{"grp": draw(st.sampled_from(["x", "y"])),
                            "tag": i} for i in samp]
    return spec


@st.composite
def cases(draw, tier):
    values = draw(st.sampled_from(["int", "dyadic", "count"]))
    form = draw(st.sampled_from(["pair", "pair", "pair", "list"]))
    mdf = draw(st.sampled_from(MDF))
    sample, obs = draw(MODES), draw(MODES)
    if mdf == "none" or form == "list":
        sample = obs = "union"
    k = 2 if form == "pair" else draw(st.integers(1, 4))
    if form == "list":
        # the list form is documented for tables without metadata
        mds = ["none"] * (k + 1) if mdf != "none" else \
            [draw(st.sampled_from(["none", "obs", "both"]))
             for _ in range(k + 1)]
        operands = [draw(operand(values, mds[0]))]
        for m in mds[1:]:
            operands.append(draw(operand(values, m, operands[0])))
    else:
        operands = [draw(operand(values, draw(st.sampled_from(
            ["none", "none", "obs", "samp", "both"]))))]
        operands.append(draw(operand(values, draw(st.sampled_from(
            ["none", "none", "obs", "samp", "both"])), operands[0])))
    if form == "pair" and draw(st.sampled_from([False, False, True])):
        # values that need all 53 bits, and tiny ones (one addition per cell
        # is exact in any order)
        for o_ in operands:
            o_["rows"] = draw(gen.matrices(len(o_["obs"]), len(o_["samp"]),
                                           "frac"))
        values = "frac"
    return {"operands": operands, "form": form, "sample": sample,
            "values": values,
            "observation": obs, "mdf": mdf,
            # the receiver merged with itself (the same object): every cell
            # doubles
            "self_merge": form == "pair" and
            draw(st.sampled_from([False] * 11 + [True]))}


def strategy(tier):
    return cases(tier)


def md_function(name):
    if name == "default":
        return None
    if name == "dict_union":
        def f(x, y):
            d = dict(y or {})
            d.update(x or {})
            return d
        return f
    if name == "prefer_other":
        return lambda x, y: y if y is not None else x
    if name == "tag":
        # records which sides it was given (a custom function is called for
        # IDs only one operand describes, too)
        def g(x, y):
            if x is None and y is None:
                return None
            d = dict(y or {})
            d.update(x or {})
            d["sides"] = "%s%s" % ("S" if x is not None else "-",
                                   "O" if y is not None else "-")
            return d
        return g
    raise ValueError(name)


def model_md_f(name):
    if name == "default":
        return lambda x, y: x if x is not None else y
    return md_function(name)


class _Quiet:
    def cls(self, *a, **k):
        pass

    def skip(self, *a, **k):
        pass

    def nt(self, *a, **k):
        pass


def check(case, rec):
    tabs = [gen.build(s, rec=rec) for s in case["operands"]]
    if case.get("self_merge"):
        tabs = [tabs[0], tabs[0]]
        rec.cls("merged-with-itself")
    _check(case, rec, tabs)
    if len(case["operands"][0]["obs"]) % 3 == 0 and \
            not any(t.is_empty() for t in tabs):
        # the same operands merged again after in-place edits: the result is
        # about what they hold now (nothing remembered from the first merge)
        for k, t in enumerate(tabs[:2]):
            t.transform(lambda v, i, md: v * 2, inplace=True,
                        axis="observation" if k == 0 else "sample")
        rec.cls("merged-again-after-in-place-edits")
        try:
            _check(case, _Quiet(), tabs)
        except Violation as v:
            raise Violation(v.sub, "merged again after in-place edits "
                            "(values doubled): " + v.msg)


def _check(case, rec, tabs):
    from biom.exception import TableException
    snaps = [observe.snapshot(t) for t in tabs]
    refs = [Ref.from_snapshot(s) for s in snaps]
    smode, omode, mdf = case["sample"], case["observation"], case["mdf"]
    rec.cls("form:" + case["form"])
    rec.cls("modes:%s/%s" % (smode, omode))
    rec.cls("mdf:" + mdf)

    def idset(axis, mode):
        sets = [set(r.ids(axis)) for r in refs]
        out = sets[0]
        for s in sets[1:]:
            out = out | s if mode == "union" else out & s
        return out
    want_o, want_s = idset("observation", omode), idset("sample", smode)

    kw = {"sample": smode, "observation": omode}
    if mdf == "none":
        kw["sample_metadata_f"] = None
        kw["observation_metadata_f"] = None
    elif mdf != "default":
        kw["sample_metadata_f"] = md_function(mdf)
        kw["observation_metadata_f"] = md_function(mdf)
    a = tabs[0]
    other = tabs[1] if case["form"] == "pair" else tabs[1:]

    if not want_o or not want_s:
        try:
            a.merge(other, **kw)
        except TableException:
            rec.cls("empty-intersection-refused")
            return
        raise Violation("empty-intersection-not-refused", "merge(%r/%r) of "
                        "%r and %r did not raise TableException" %
                        (smode, omode, snaps[0], snaps[1]))
    held = list(other) if case["form"] == "list" else None
    if len(snaps[0]["obs"]) % 2 and "sample_metadata_f" in kw:
        # merge(other, sample, observation, sample_metadata_f,
        #       observation_metadata_f), positionally
        r = a.merge(other, kw["sample"], kw["observation"],
                    kw["sample_metadata_f"], kw["observation_metadata_f"])
    else:
        r = a.merge(other, **kw)
    if held is not None and (len(held) != len(other) or any(
            x is not y for x, y in zip(held, other))):
        raise Violation("operand-list-modified", "merge changed the list of "
                        "tables it was given: %d -> %d entries" %
                        (len(held), len(other)))
    got = observe.snapshot(r)
    observe.check_lookups(r, got, "merge result")
    # operands are untouched
    for k, (t, s) in enumerate(zip(tabs, snaps)):
        if observe.snapshot(t) != s:
            raise Violation("operand-modified", "operand %d changed" % k)

    def bad(sub, msg):
        raise Violation(sub, "%s [merge %s/%s, mdf %s, form %s; operands %r]"
                        % (msg, smode, omode, mdf, case["form"],
                           [x.as_dict() for x in refs]))

    if len(set(got["obs"])) != len(got["obs"]) or set(got["obs"]) != want_o:
        bad("obs-ids", "observation ids %r, expected the set %r" %
            (got["obs"], sorted(want_o)))
    if len(set(got["samp"])) != len(got["samp"]) or \
            set(got["samp"]) != want_s:
        bad("sample-ids", "sample ids %r, expected the set %r" %
            (got["samp"], sorted(want_s)))
    for i, o in enumerate(got["obs"]):
        for j, s in enumerate(got["samp"]):
            want = 0.0
            for rf in refs:
                if o in rf.obs and s in rf.samp:
                    want += rf.cell(o, s)
            if got["rows"][i][j] != want:
                bad("cell", "value at (%r,%r) is %r, sum of operands is %r" %
                    (o, s, got["rows"][i][j], want))
    if smode == "union" and omode == "union":
        tot = sum(x for row in got["rows"] for x in row)
        want = sum(x for rf in refs for row in rf.rows for x in row)
        if tot != want and case.get("values") != "frac":
            bad("grand-total", "%r != sum of operand totals %r" % (tot, want))

    # metadata
    if case["form"] == "pair" and mdf != "none":
        f = model_md_f(mdf)
        for axis, key in (("observation", "obs"), ("sample", "samp")):
            gmd = got[key + "_md"]
            for k, i in enumerate(got[key]):
                args = []
                for rf in refs:
                    ids = rf.ids(axis)
                    md = rf.md(axis)
                    args.append(md[ids.index(i)]
                                if md is not None and i in ids else None)
                want = f(args[0], args[1])
                have = gmd[k] if gmd is not None else None
                if (have or None) != (want or None):
                    bad("metadata", "%s id %r has metadata %r, expected "
                        "f(self=%r, other=%r) = %r" % (axis, i, have,
                                                       args[0], args[1],
                                                       want))

    # fast path vs general path: same operands, the receiver additionally
    # carries sentinel metadata (forces the general path)
    if case["form"] == "pair" and smode == "union" and omode == "union":
        s0 = dict(case["operands"][0])
        s0["history"] = []
        s0["obs"], s0["samp"], s0["rows"] = snaps[0]["obs"], \
            snaps[0]["samp"], snaps[0]["rows"]
        s0["samp_md"] = [{"sentinel": "s"} for _ in s0["samp"]]
        s0["obs_md"] = snaps[0]["obs_md"]
        a2 = gen.build(s0)
        r2 = observe.snapshot(a2.merge(tabs[1]))
        if set(r2["obs"]) != set(got["obs"]) or \
                set(r2["samp"]) != set(got["samp"]):
            bad("fast-vs-general", "ID sets differ: %r/%r vs %r/%r" %
                (got["obs"], got["samp"], r2["obs"], r2["samp"]))
        for i, o in enumerate(got["obs"]):
            for j, s in enumerate(got["samp"]):
                v2 = r2["rows"][r2["obs"].index(o)][r2["samp"].index(s)]
                if v2 != got["rows"][i][j]:
                    bad("fast-vs-general", "cell (%r,%r): %r vs %r" %
                        (o, s, got["rows"][i][j], v2))
        rec.cls("fast-vs-general-compared")

    def partial(axis):
        a_, b_ = refs[0].ids(axis), refs[1].ids(axis) if len(refs) > 1 \
            else refs[0].ids(axis)
        common = [x for x in a_ if x in b_]
        return (0 < len(common) < max(len(a_), len(b_)) and len(common) >= 2
                and common != [x for x in b_ if x in a_])
    has_nz = any(x != 0 for row in got["rows"] for x in row)
    p = partial("observation") or partial("sample")
    rec.cls("partial-overlap-different-order", p)
    rec.nt(p and has_nz)


REGRESSIONS = [
    # receiver without metadata, other with: default keeps the other's
    {"operands": [
        {"obs": ["O0", "O1"], "samp": ["S0"], "rows": [[1.0], [2.0]],
         "type": None, "form": "dense", "history": [], "obs_md": None,
         "samp_md": None},
        {"obs": ["O1", "O2"], "samp": ["S0", "S1"],
         "rows": [[3.0, 4.0], [5.0, 6.0]], "type": None, "form": "dense",
         "history": [], "obs_md": [{"who": "a", "id": "O1"},
                                   {"who": "b", "id": "O2"}],
         "samp_md": None}],
     "form": "pair", "sample": "union", "observation": "union",
     "mdf": "default"},
]


def _many(k):
    """The list form with many operands (operand counts past 32 / 64)."""
    ops_ = []
    for j in range(k):
        obs = ["O%d" % ((j + q) % 6) for q in range(2)]
        samp = ["S%d" % ((j * 2 + q) % 5) for q in range(2)]
        ops_.append({"obs": obs, "samp": samp,
                     "rows": [[float(j + 1), 0.0], [float(j % 3), 2.0]],
                     "type": None, "form": "dense", "history": [],
                     "obs_md": None, "samp_md": None})
    return {"operands": ops_, "form": "list", "sample": "union",
            "observation": "union", "mdf": "default", "values": "int",
            "self_merge": False}


REGRESSIONS += [_many(34), _many(66)]


def _wide(n):
    """Long axes with few non-zeros (index types sized after the number of
    entries must still hold every position)."""
    a = {"obs": ["O%d" % i for i in range(n)], "samp": ["S0", "S1"],
         "rows": [[1.0 if i % 97 == 0 else 0.0, 0.0] for i in range(n)],
         "type": None, "form": "csr", "history": [], "obs_md": None,
         "samp_md": None}
    b = {"obs": ["O%d" % (i + n // 2) for i in range(n)], "samp": ["S1", "S2"],
         "rows": [[0.0, 2.0 if i % 89 == 0 else 0.0] for i in range(n)],
         "type": None, "form": "csr", "history": [], "obs_md": None,
         "samp_md": None}
    return {"operands": [a, b], "form": "pair", "sample": "union",
            "observation": "union", "mdf": "default", "values": "int",
            "self_merge": False}


REGRESSIONS += [_wide(300), _wide(700)]


def _filled(n, m, k=2):
    """Well-filled operands that overlap in most cells (results of about a
    thousand cells and more; every shared cell is a sum of k values)."""
    ops_ = []
    for q in range(k):
        ops_.append({
            "obs": ["O%d" % (i + q) for i in range(n)],
            "samp": ["S%d" % (j + q) for j in range(m)],
            "rows": [[float((i * 5 + j * 3 + q) % 7 + 1) if (i + j + q) % 11
                      else 0.0 for j in range(m)] for i in range(n)],
            "type": None, "form": ["dense", "csr", "csc"][q % 3],
            "history": [], "obs_md": None, "samp_md": None})
    return {"operands": ops_, "form": "pair" if k == 2 else "list",
            "sample": "union", "observation": "union", "mdf": "default",
            "values": "int", "self_merge": False}


REGRESSIONS += [_filled(32, 32), _filled(31, 33), _filled(70, 40),
                _filled(33, 33, 3)]
