"""C19 - summaries and exports report the numbers that are in the matrix."""
import contextlib
import csv
import io
import math
import os
import tempfile

import numpy as np
from hypothesis import strategies as st

from .. import gen, ops, observe
from ..model import Ref
from ..core import Violation
from . import c01

ID = "C19"
LEVEL = "exploration"
RULE = ("table (integer / dyadic values, negatives where the summary allows, "
        "metadata with per-ID varying key order) x history/layout x one "
        "summary of {sum, min, max, nonzero_counts, density, nonzero, reduce,"
        " compute_counts_per_sample_stats, summarize-table (default, "
        "--qualitative, --observations), table-ids, head, to_dataframe "
        "(dense/sparse), metadata_to_dataframe, export-metadata}; oracle = "
        "numpy on the dense matrix of a deep snapshot, report figures parsed "
        "from the text; non-trivial = non-square table whose row sums differ "
        "from its column sums and whose layout is not canonical CSR-sorted, "
        "or a CLI/report case; distinct = canonical hash")
BUDGET = {"quick": {"shards": 16, "examples": 250},
          "thorough": {"shards": 16, "examples": 5000}}
ASSUMPTIONS = ["a %1.3f figure is within 5.1e-4 and a %d figure within 1 of "
               "the reference (the formats are the report's)",
               "sparse DataFrame zero cells may read as the declared fill "
               "value"]
TMP = c01.TMP

KINDS = ["sum", "min", "max", "nonzero_counts", "density", "nonzero",
         "reduce", "stats", "summarize", "summarize", "table_ids", "head",
         "to_dataframe", "md_dataframe", "export_metadata"]


@st.composite
def cases(draw, tier):
    kind = draw(st.sampled_from(KINDS))
    if kind in ("summarize", "stats"):
        vk = draw(st.sampled_from(["count", "posint", "posdyadic", "int",
                                   "small"]))
    elif kind in ("to_dataframe", "nonzero", "min", "max", "density",
                  "head", "table_ids"):
        # figures that involve no arithmetic: any finite value
        vk = draw(st.sampled_from(["int", "dyadic", "count", "wild", "frac"]))
    else:
        vk = draw(st.sampled_from(["int", "dyadic", "count"]))
    idk = draw(st.sampled_from(["simple", "simple", "tsv"])) \
        if kind in ("summarize", "table_ids", "head") else "simple"
    spec = draw(gen.table_specs(tier, values=vk, md=True, history=True,
                                ids=idk))
    if idk == "tsv":
        spec["history"] = [o for o in spec["history"]
                           if o["op"] != "rename"]
    if kind in ("min", "max") and draw(st.integers(0, 3)) == 0:
        # every non-zero value negative (or every one positive) next to
        # zeros: the extremes are extremes of the non-zero values
        sign = draw(st.sampled_from([-1.0, -1.0, 1.0]))
        spec["rows"] = [[sign * abs(x) for x in r] for r in spec["rows"]]
        if spec["rows"] and spec["rows"][0]:
            spec["rows"][0][0] = 0.0
        spec["history"] = [o for o in spec["history"]
                           if o["op"] in ("sort", "data", "transpose",
                                          "nnz", "copy")]
    if kind in ("md_dataframe", "export_metadata", "summarize"):
        for key, ids in (("obs_md", spec["obs"]), ("samp_md", spec["samp"])):
            if draw(st.integers(0, 3)) != 0:
                k = draw(st.integers(1, 3))
                names = draw(st.lists(st.sampled_from(
                    ["p", "q", "taxonomy", "depth", "site"]), min_size=k,
                    max_size=k, unique=True))
                llen = draw(st.integers(1, 3))
                md = []
                for i in ids:
                    order = draw(st.permutations(names))
                    d = {}
                    for nme in order:
                        if nme == "taxonomy":
                            d[nme] = [draw(st.sampled_from(["a", "b", "c"]))
                                      for _ in range(llen)]
                        elif nme == "depth":
                            d[nme] = draw(st.integers(0, 9))
                        else:
                            d[nme] = draw(st.sampled_from(["x", "y", "z w"]))
                    md.append(d)
                spec[key] = md
            else:
                spec[key] = None
    case = {"table": spec, "kind": kind,
            "axis": draw(st.sampled_from(["sample", "observation", "whole"])),
            "flag": draw(st.booleans()), "flag2": draw(st.booleans()),
            "n": draw(st.integers(1, 7)), "m": draw(st.integers(1, 7)),
            "f": draw(st.sampled_from(["add", "max", "first", "count",
                                       "sub1", "builtin_max", "builtin_min",
                                       "operator_add", "np_maximum",
                                       "np_minimum", "np_add"])),
            "sub": kind in ("summarize", "table_ids", "head",
                            "export_metadata") and
            draw(st.sampled_from([False] * 40 + [True]))}
    return case


def strategy(tier):
    return cases(tier)


def close3(a, b):
    return abs(a - b) <= 5.1e-4 + 1e-9 * abs(b)


NAMES = {}


def run_cmd(cmd, args, sub=False):
    from ..cli import invoke
    rc, out = invoke(cmd, cmd.name, args, sub)
    if rc != 0:
        raise Violation("cli-exit", "biom %s %s exited %r: %s" %
                        (cmd.name, args, rc, out[-300:]))
    return out


AGAIN_KINDS = ("sum", "min", "max", "nonzero_counts", "density", "nonzero",
               "reduce", "stats")


class _Quiet:
    """Recorder stand-in for the second pass of a case."""
    def cls(self, *a, **k):
        pass

    def skip(self, *a, **k):
        pass

    def nt(self, *a, **k):
        pass


def check(case, rec):
    t = gen.build(case["table"], rec=rec)
    _check(case, rec, t)
    if case["kind"] in AGAIN_KINDS and case.get("m", 0) % 3 == 0 and \
            not t.is_empty():
        # the table has answered this summary once; after in-place edits the
        # same question is about what it holds now
        t.transform(lambda v, i, md: v * 2, axis="observation", inplace=True)
        ids = [str(i) for i in t.ids()]
        same = {i: i[:-1] + ("~" if i[-1:] != "~" else "^") for i in ids if i}
        if len(same) == len(ids) and len(set(same.values())) == len(ids):
            t.update_ids(same, inplace=True)
        rec.cls("asked-again-after-in-place-edits")
        try:
            _check(case, _Quiet(), t)
        except Violation as v:
            raise Violation(v.sub, "asked again after in-place edits "
                            "(values doubled, samples renamed): " + v.msg)


def _check(case, rec, t):
    kind = case["kind"]
    before = observe.snapshot(t)
    ref = Ref.from_snapshot(before)
    D = np.asarray(ref.rows, dtype=float).reshape(len(ref.obs),
                                                  len(ref.samp))
    lay = observe.layout(t)
    rec.cls("fmt:%s" % lay.get("format"))
    rec.cls("unsorted", lay.get("sorted") is False)
    rec.cls("kind:" + kind)
    axis = case["axis"]
    n, m = D.shape
    asym = n != m and sorted(D.sum(axis=0).tolist()) != \
        sorted(D.sum(axis=1).tolist())
    noncanon = lay.get("format") != "csr" or lay.get("sorted") is False
    nt = asym and noncanon

    def bad(sub, msg):
        raise Violation(sub, "%s [%s axis=%s; layout %r; table %r]" %
                        (msg, kind, axis, lay, ref.as_dict()))

    def same(got, want, what):
        got = np.asarray(got, dtype=float).ravel().tolist()
        want = np.asarray(want, dtype=float).ravel().tolist()
        if got != want:
            bad(kind, "%s = %r, matrix gives %r" % (what, got, want))

    if kind == "sum":
        want = {"whole": D.sum(), "sample": D.sum(axis=0),
                "observation": D.sum(axis=1)}[axis]
        same(t.sum(axis), want, "sum(%s)" % axis)
    elif kind in ("min", "max"):
        def ext(v):
            nz = [x for x in v if x != 0]
            return (min(nz) if kind == "min" else max(nz)) if nz else None
        if axis == "whole":
            per = [ext(v) for v in ref.vectors("sample")]
            if any(p is None for p in per):
                rec.skip("a sample has no non-zero entry")
                return
            want = min(per) if kind == "min" else max(per)
        else:
            per = [ext(v) for v in ref.vectors(axis)]
            if any(p is None for p in per):
                rec.skip("a vector has no non-zero entry")
                return
            want = per
        same(getattr(t, kind)(axis), want, "%s(%s)" % (kind, axis))
    elif kind == "nonzero_counts":
        binary = case["flag"]
        if binary:
            per = {"sample": (D != 0).sum(axis=0),
                   "observation": (D != 0).sum(axis=1),
                   "whole": [(D != 0).sum()]}[axis]
        else:
            per = {"sample": D.sum(axis=0), "observation": D.sum(axis=1),
                   "whole": [D.sum()]}[axis]
        same(t.nonzero_counts(axis, binary=binary), per,
             "nonzero_counts(%s, binary=%s)" % (axis, binary))
    elif kind == "density":
        want = float((D != 0).sum()) / (n * m)
        if t.get_table_density() != want:
            bad(kind, "density %r, matrix gives %r" %
                (t.get_table_density(), want))
    elif kind == "nonzero":
        got = [(str(a), str(b)) for a, b in t.nonzero()]
        want = {(ref.obs[i], ref.samp[j]) for i in range(n) for j in range(m)
                if D[i, j] != 0}
        if len(got) != len(set(got)) or set(got) != want:
            bad(kind, "nonzero() %r, non-zero cells %r" % (sorted(got),
                                                           sorted(want)))
    elif kind == "reduce":
        ax = axis if axis != "whole" else "sample"
        import functools
        import operator
        # (also the functions themselves, not wrapped in a lambda: reduce
        # folds the complete vector, zeros included, whatever f is)
        f = {"add": lambda a, b: a + b, "max": lambda a, b: max(a, b),
             "first": lambda a, b: a, "count": lambda a, b: a + 1,
             "sub1": lambda a, b: a - b + 1, "builtin_max": max,
             "builtin_min": min, "operator_add": operator.add,
             "np_maximum": np.maximum, "np_minimum": np.minimum,
             "np_add": np.add}[case["f"]]
        vecs = ref.vectors(ax)
        # the left fold over the complete dense vector
        want = [functools.reduce(f, v) for v in vecs]
        same(t.reduce(f, ax), want, "reduce(%s, %s)" % (case["f"], ax))
    elif kind == "stats":
        from biom.util import compute_counts_per_sample_stats
        binary = case["flag"]
        mn, mx, med, mean, per = compute_counts_per_sample_stats(t, binary)
        cols = (D != 0).sum(axis=0) if binary else D.sum(axis=0)
        if [str(k) for k in per] != ref.samp or \
                [float(v) for v in per.values()] != cols.astype(float).tolist():
            bad(kind, "per-sample counts %r, matrix gives %r" %
                (per, dict(zip(ref.samp, cols.tolist()))))
        for name, got, want in (("min", mn, cols.min()), ("max", mx,
                                                           cols.max()),
                                ("median", med, np.median(cols)),
                                ("mean", mean, np.mean(cols))):
            if not math.isclose(float(got), float(want), rel_tol=1e-12):
                bad(kind, "%s %r, matrix gives %r" % (name, got, want))
    elif kind == "summarize":
        from ..cli import command
        summarize_table = command("summarize-table")
        qual, obs_mode = case["flag"], case["flag2"]
        rec.cls("summarize:%s%s" % ("qual" if qual else "quant",
                                    "+obs" if obs_mode else ""))
        # the real command, on a JSON file of the table (keeps the metadata
        # as it is), report to a file or to standard output
        with tempfile.TemporaryDirectory(prefix="vf-c19-", dir=TMP) as d:
            p = os.path.join(d, "t.biom")
            open(p, "w", encoding="utf8").write(t.to_json("vf"))
            args = ["-i", p] + (["--qualitative"] if qual else []) + \
                (["--observations"] if obs_mode else [])
            if case["n"] % 2:
                o = os.path.join(d, "summary.txt")
                run_cmd(summarize_table, args + ["-o", o], case.get("sub"))
                text = open(o, encoding="utf8").read()
            else:
                text = run_cmd(summarize_table, args, case.get("sub"))
                text = text[:-1] if text.endswith("\n") else text
        try:
            M = D.T if obs_mode else D
            unit_ids = ref.obs if obs_mode else ref.samp
            counts = (M != 0).sum(axis=0).astype(float) if qual else M.sum(axis=0)
            lines = text.split("\n")
            fig = {}
            for ln in lines:
                if ": " in ln and (ln.startswith(" ") or ln.startswith("Num") or
                                   ln.startswith("Total") or
                                   ln.startswith("Table density")):
                    k, v = ln.rsplit(": ", 1)
                    fig[k.strip()] = v
            if int(fig.get("Num samples", -1)) != m or \
                    int(fig.get("Num observations", -1)) != n:
                bad(kind, "Num samples/observations %r/%r, table is %d obs x %d "
                    "samples\n%s" % (fig.get("Num samples"),
                                     fig.get("Num observations"), n, m, text))
            if not qual:
                for key in ("Total count",
                            "Table density (fraction of non-zero values)"):
                    if key not in fig:
                        bad(kind, "the quantitative report has no %r line:\n%s"
                            % (key, text))
                # whole-number tables have an exact total; otherwise the report
                # truncates a float sum whose last bit depends on the order
                exact = bool(np.all(D == np.floor(D))) and \
                    float(np.abs(D).sum()) < 2 ** 52
                if abs(int(fig["Total count"]) - D.sum()) > (0 if exact else 1):
                    bad(kind, "Total count %s, matrix total %r" %
                        (fig["Total count"], D.sum()))
                dens = float((D != 0).sum()) / (n * m)
                if not close3(float(fig[
                        "Table density (fraction of non-zero values)"]), dens):
                    bad(kind, "density %s, matrix gives %r" % (fig[
                        "Table density (fraction of non-zero values)"], dens))
            elif "Total count" in fig:
                bad(kind, "qualitative report prints a total count")
            for name, want in (("Min", counts.min()), ("Max", counts.max()),
                               ("Median", np.median(counts)),
                               ("Mean", np.mean(counts)),
                               ("Std. dev.", np.std(counts))):
                if name not in fig or not close3(float(fig[name]), float(want)):
                    bad(kind, "%s %r, matrix gives %r\n%s" %
                        (name, fig.get(name), want, text))
            smd, omd = ref.samp_md, ref.obs_md
            for label, md in (("Sample Metadata Categories", smd),
                              ("Observation Metadata Categories", omd)):
                want = "; ".join(md[0].keys()) if md else "None provided"
                if sorted(fig.get(label, "").split("; ")) != \
                        sorted(want.split("; ")):
                    bad(kind, "%s %r, expected %r" % (label, fig.get(label),
                                                      want))
            start = [k for k, ln in enumerate(lines) if ln.endswith("detail:")]
            detail = lines[start[-1] + 1:] if start else []
            seen, prev = [], None
            for ln in detail:
                k, v = ln.rsplit(": ", 1)
                seen.append(k)
                want = counts[unit_ids.index(k)] if k in unit_ids else None
                if want is None or not close3(float(v), float(want)):
                    bad(kind, "detail line %r, matrix gives %r" % (ln, want))
                if prev is not None and float(v) < prev - 1e-9:
                    bad(kind, "detail not ordered by value:\n%s" % text)
                prev = float(v)
            if sorted(seen) != sorted(unit_ids):
                bad(kind, "detail lists %r, expected every id of %r once" %
                    (seen, unit_ids))
        except (ValueError, KeyError, IndexError) as e:
            # a report that cannot even be read as the documented layout
            bad(kind, "unreadable report (%s: %s):\n%s" % (
                type(e).__name__, e, text))
        nt = True
    elif kind in ("table_ids", "head"):
        import h5py
        with tempfile.TemporaryDirectory(prefix="vf-c19-", dir=TMP) as d:
            p = os.path.join(d, "t.biom")
            # the commands take a table in any of the file formats
            infmt = ["hdf5", "json", "tsv", "tsv_md", "hdf5"][
                (case["n"] + 2 * case["m"]) % 5]
            if infmt.startswith("tsv") and (
                    not n or not m or
                    any(i != i.strip() or "\t" in i or "\n" in i or
                        i.startswith("#") or not i
                        for i in ref.obs + ref.samp)):
                infmt = "json"
            if infmt == "tsv_md" and not (
                    before["obs_md"] and all(
                        isinstance(m_.get("k"), str) and m_["k"].strip()
                        and not m_["k"][0].isdigit()
                        for m_ in before["obs_md"])):
                infmt = "tsv"
            if not np.isfinite(D).all():
                # a history may overflow to inf; the text formats' domains
                # (C02, C03) are finite values
                infmt = "hdf5"
            rec.cls("input:" + infmt)
            if infmt == "hdf5":
                with h5py.File(p, "w") as f:
                    t.to_hdf5(f, "vf")
            elif infmt == "json":
                with open(p, "w", encoding="utf8") as f:
                    f.write(t.to_json("vf"))
            else:
                p = os.path.join(d, "t.tsv")
                kw_ = {} if infmt == "tsv" else {
                    "header_key": "k", "header_value": "taxonomy",
                    "metadata_formatter": str}
                with open(p, "w", encoding="utf8") as f:
                    f.write(t.to_tsv(**kw_))
            if kind == "table_ids":
                from ..cli import command
                table_ids = command("table-ids")
                obs_mode = case["flag"]
                out = run_cmd(table_ids, ["-i", p] + (["--observations"]
                                                      if obs_mode else []),
                              case.get("sub"))
                want = ref.obs if obs_mode else ref.samp
                if out.split("\n")[:-1] != want:
                    bad(kind, "printed %r, ids are %r" % (out, want))
            else:
                from ..cli import command
                head = command("head")
                hn, hm = case["n"], case["m"]
                args = ["-i", p, "-n", str(hn), "-m", str(hm)]
                if case["flag"]:
                    o = os.path.join(d, "head.txt")
                    run_cmd(head, args + ["-o", o], case.get("sub"))
                    out = open(o, encoding="utf8").read()
                else:
                    out = run_cmd(head, args, case.get("sub"))
                rows = [ln.split("\t") for ln in out.split("\n") if ln]
                if rows[0] != ["# Constructed from biom file"] or \
                        rows[1][0] != "#OTU ID":
                    bad(kind, "unexpected header %r" % (rows[:2],))
                if rows[1][1:] != ref.samp[:hm]:
                    bad(kind, "columns %r, leading sample ids %r" %
                        (rows[1][1:], ref.samp[:hm]))
                body = rows[2:]
                if [r_[0] for r_ in body] != ref.obs[:hn]:
                    bad(kind, "rows %r, leading observation ids %r" %
                        ([r_[0] for r_ in body], ref.obs[:hn]))
                for i, r_ in enumerate(body):
                    if [float(x) for x in r_[1:]] != D[i, :hm].tolist():
                        bad(kind, "row %r prints %r, matrix %r" %
                            (r_[0], r_[1:], D[i, :hm].tolist()))
        nt = True
    elif kind == "to_dataframe":
        dense = case["flag"]
        df = t.to_dataframe(dense=dense)
        if [str(x) for x in df.index] != ref.obs or \
                [str(x) for x in df.columns] != ref.samp:
            bad(kind, "index/columns %r / %r" % (list(df.index),
                                                 list(df.columns)))
        for i in range(n):
            for j in range(m):
                v = df.iloc[i, j]
                if D[i, j] != 0 or dense:
                    if float(v) != D[i, j]:
                        bad(kind, "cell (%d,%d) = %r, matrix %r (dense=%s)" %
                            (i, j, v, D[i, j], dense))
                else:
                    fill = getattr(df.dtypes.iloc[j], "fill_value", 0.0)
                    if not (v == 0 or (v != v and fill != fill) or v == fill):
                        bad(kind, "zero cell (%d,%d) reads %r" % (i, j, v))
    elif kind in ("md_dataframe", "export_metadata"):
        ax = axis if axis != "whole" else "observation"
        md = ref.md(ax)
        ids = ref.ids(ax)
        if md is None:
            try:
                t.metadata_to_dataframe(ax)
            except KeyError:
                return
            bad(kind, "no metadata on %s but no KeyError" % ax)
        cols = []
        for key, val in md[0].items():
            if isinstance(val, list):
                cols.extend("%s_%d" % (key, q) for q in range(len(val)))
            else:
                cols.append(key)

        def cell(mdict, col):
            if col in mdict and not isinstance(mdict[col], list):
                return mdict[col]
            key, q = col.rsplit("_", 1)
            return mdict[key][int(q)]
        if kind == "md_dataframe":
            df = t.metadata_to_dataframe(ax)
            if [str(x) for x in df.index] != ids or \
                    sorted(map(str, df.columns)) != sorted(cols):
                bad(kind, "index/columns %r / %r, expected %r / %r" %
                    (list(df.index), list(df.columns), ids, cols))
            for k, i in enumerate(ids):
                for c in cols:
                    got = observe.plain(df.loc[i, c]) if not hasattr(
                        df.loc[i, c], "item") else df.loc[i, c].item()
                    if got != cell(md[k], c):
                        bad(kind, "%s[%r] of %r is %r, metadata says %r" %
                            (ax, c, i, got, cell(md[k], c)))
        else:
            import h5py
            from ..cli import command
            export_metadata = command("export-metadata")
            if any(isinstance(v, list) and k != "taxonomy"
                   for k, v in md[0].items()):
                rec.skip("list metadata under a non-reserved name")
                return
            with tempfile.TemporaryDirectory(prefix="vf-c19-", dir=TMP) as d:
                p, o = os.path.join(d, "t.biom"), os.path.join(d, "md.tsv")
                jt = t.to_json("vf")
                open(p, "w", encoding="utf8").write(jt)
                flag = "-m" if ax == "sample" else "--observation-metadata-fp"
                args = ["-i", p, flag, o]
                o2 = os.path.join(d, "other-axis.tsv")
                oax = "observation" if ax == "sample" else "sample"
                if case["flag"]:
                    # both axes asked for in one call, each into its file
                    args = ["-i", p, "-m", o if ax == "sample" else o2,
                            "--observation-metadata-fp",
                            o2 if ax == "sample" else o]
                out = run_cmd(export_metadata, args, case.get("sub"))
                if case["flag"] and os.path.exists(o2):
                    ids2 = [r_[0] for r_ in csv.reader(
                        open(o2, encoding="utf8", newline=""),
                        delimiter="\t")][1:]
                    oids = ref.obs if oax == "observation" else ref.samp
                    if ids2 != oids:
                        bad(kind, "the file written for the %s axis lists "
                            "%r; that axis holds %r (metadata: %r)" %
                            (oax, ids2, oids, t.metadata(axis=oax)
                             is not None))
                if not os.path.exists(o):
                    bad(kind, "export-metadata wrote no file for the %s "
                        "axis (which has metadata): %r" % (ax, out))
                rows = list(csv.reader(open(o, encoding="utf8", newline=""),
                                       delimiter="\t"))
            if rows[0][1:] != cols and sorted(rows[0][1:]) != sorted(cols):
                bad(kind, "exported columns %r, expected %r" % (rows[0], cols))
            if [r_[0] for r_ in rows[1:]] != ids:
                bad(kind, "exported ids %r, expected %r" %
                    ([r_[0] for r_ in rows[1:]], ids))
            for k, r_ in enumerate(rows[1:]):
                for c, v in zip(rows[0][1:], r_[1:]):
                    if v != str(cell(md[k], c)):
                        bad(kind, "exported %s of %r is %r, metadata says %r"
                            % (c, ids[k], v, cell(md[k], c)))
        orders = {tuple(mm.keys()) for mm in md}
        rec.cls("md-key-order-varies", len(orders) > 1)
        nt = len(orders) > 1
    else:
        raise ValueError(kind)
    if observe.snapshot(t) != before:
        bad("table-changed", "the summary changed the table")
    rec.nt(nt and bool((D != 0).any()))


# ---------------------------------------------------------------------------
# exhaustive: the report header for every (number of units, total count)

ENUM_UNITS = {"quick": 24, "thorough": 40}
ENUM_EXTRA = {"quick": 40, "thorough": 200}


def ENUM_NAME(tier):
    return ("exhaustive: summarize-table on one-row count tables for every "
            "number of samples 1..%d x every total n..n+%d (and the "
            "transposed table with --observations)" %
            (ENUM_UNITS[tier], ENUM_EXTRA[tier] - 1))


def enum_chunks(tier):
    return list(range(1, ENUM_UNITS[tier] + 1))


def enum_chunk(tier, n):
    for extra in range(ENUM_EXTRA[tier]):
        # n units, total n + extra: all ones, the surplus spread over the
        # first units
        vals = [1.0 + (extra // n) + (1.0 if k < extra % n else 0.0)
                for k in range(n)]
        if extra % 5 == 4:
            # large totals with a tiny spread (one-pass variance formulas
            # cancel catastrophically here)
            vals = [1e8 + float((k * 7 + extra) % 4) for k in range(n)]
        obs_mode = extra % 2 == 1
        ids = ["u%d" % k for k in range(n)]
        spec = {"obs": ids if obs_mode else ["only"],
                "samp": ["only"] if obs_mode else ids,
                "rows": [[v] for v in vals] if obs_mode else [vals],
                "obs_md": None, "samp_md": None, "type": None,
                "form": "dense", "history": []}
        yield {"table": spec, "kind": "summarize", "axis": "sample",
               "flag": False, "flag2": obs_mode, "n": 2, "m": 1, "f": "add",
               "sub": False}


_T = {"obs": ["o1", "o2"], "samp": ["s1", "s2", "s3"],
      "rows": [[1.0, 0.0, 3.0], [2.0, 2.0, 0.0]],
      "obs_md": [{"p": "x", "q": "y"}, {"q": "z w", "p": "y"}],
      "samp_md": None, "type": "OTU table", "form": "dense", "history": []}
REGRESSIONS = [
    {"table": _T, "kind": k, "axis": "observation", "flag": fl, "flag2": f2,
     "n": 1, "m": 2, "f": "add", "sub": True}
    for k, fl, f2 in (("summarize", False, True), ("table_ids", True, False),
                      ("head", False, False),
                      ("export_metadata", False, False))
]
