"""C18 - metadata updates affect exactly the named IDs and keys and nothing
else; mapping files parse to the relation their rows describe."""
import io
import os
import tempfile
from copy import deepcopy

import numpy as np
from hypothesis import strategies as st

from .. import gen, ops, observe
from ..model import Ref
from ..core import Violation
from . import c01

ID = "C18"
LEVEL = "exploration"
RULE = ("(api) table with/without metadata x history x axis x add_metadata "
        "mapping over a drawn subset/superset of the IDs with overlapping "
        "and new keys, or del_metadata(keys | None, sample/observation/whole)"
        " incl. absent keys; (file) mapping files from a row grammar (header "
        "line, later '#' comment lines, blank lines, short / over-long rows, "
        "quoted and padded fields, int / float / ';' / ';|' columns, header "
        "override naming the first k columns) through MetadataMap.from_file "
        "(list, handle, path) and `add-metadata` (JSON or HDF5 output); "
        "oracle = dense model + reference parser written from the docstring "
        "and option help; non-trivial = mapping neither subset nor superset "
        "of the IDs sharing a key with existing metadata / file with a short "
        "row and a comment after the header; distinct = canonical hash")
BUDGET = {"quick": {"shards": 16, "examples": 250},
          "thorough": {"shards": 16, "examples": 5000}}
FUZZ_SECONDS = 120   # thorough tier: atheris campaign on the same property
ASSUMPTIONS = ["mapping-file IDs are non-empty and unique; column names "
               "unique"]
TMP = c01.TMP

KEYS = ["k", "grp", "n", "taxonomy", "new1", "new2"]
VALS = st.one_of(st.sampled_from(["a", "b", "", "zz"]), st.integers(-3, 3),
                 st.lists(st.sampled_from(["k__x", "p__y"]), max_size=2),
                 # nested mappings are values like any other: replaced, not
                 # merged, when the key is set again
                 st.dictionaries(st.sampled_from(["a", "b", "c"]),
                                 st.integers(0, 3), max_size=2))


@st.composite
def api_case(draw, tier):
    spec = draw(gen.table_specs(tier, values="int", md=True, history=True))
    spec["history"] = [o for o in spec["history"]
                       if o["op"] not in ("rename",)]
    what = draw(st.sampled_from(["add", "add", "del"]))
    # heterogeneous key sets: some IDs lack some keys
    for key in ("obs_md", "samp_md"):
        if spec[key] is not None and draw(st.booleans()):
            for m in spec[key]:
                for k in list(m):
                    if draw(st.integers(0, 2)) == 0:
                        del m[k]
    nested = what == "add" and draw(st.sampled_from([False, False, True]))
    if nested:
        # some existing values are nested mappings
        for key in ("obs_md", "samp_md"):
            for m in spec[key] or []:
                for k in list(m):
                    if draw(st.integers(0, 2)) == 0:
                        m[k] = {"z": 9, "a": 0}
    if what == "del" and draw(st.booleans()):
        # the first ID lacks a key the others carry (the state a partial
        # add_metadata leaves behind)
        for key in ("obs_md", "samp_md"):
            if spec[key] is not None and len(spec[key]) > 1 and spec[key][0]:
                k0 = sorted(spec[key][0])[0]
                del spec[key][0][k0]
                spec[key][1].setdefault(k0, "kept-by-others")
    case = {"part": "api", "table": spec, "what": what}
    if what == "add":
        case["axis"] = draw(ops.AX)
        case["mask"] = draw(ops.MASK)
        case["extra_ids"] = draw(st.integers(0, 2))
        # a mapping that names no ID of the table at all (or nothing)
        case["only_unknown"] = draw(st.sampled_from([False] * 5 + [True]))
        case["entries"] = draw(st.lists(
            st.dictionaries(st.sampled_from(KEYS), VALS, max_size=3),
            min_size=10, max_size=10))
        if nested and draw(st.booleans()):
            # ... and the mapping sets a nested value under a key that holds
            # one already (set means replaced)
            md_ = spec["obs_md" if case["axis"] == "observation"
                       else "samp_md"] or []
            held = sorted({k for m in md_ for k, v in m.items()
                           if isinstance(v, dict)})
            for e in case["entries"]:
                for k in held[:2]:
                    e[k] = {"a": 5}
    else:
        case["axis"] = draw(st.sampled_from(["sample", "observation",
                                             "whole"]))
        case["keys"] = draw(st.one_of(st.none(), st.lists(
            st.sampled_from(KEYS + ["x/y", "absent"]), max_size=4)))
        if case["keys"] and spec["obs_md"] is not None and \
                spec["samp_md"] is not None and draw(st.booleans()):
            # a requested category that both axes carry
            for key in ("obs_md", "samp_md"):
                for q, m in enumerate(spec[key]):
                    m[case["keys"][0]] = "on-both-axes-%d" % q
    return case


FIELD = st.one_of(
    st.sampled_from(["a", "b c", "", "7", "-3", "2.5", "1e3", "x;y", "x; y ;z",
                     "p;q|r;s", "k__A; p__B", "007", "5.0", "abc", "é",
                     # characters str.splitlines() breaks on but a
                     # tab-separated *line* does not end at
                     "a\u2028b", "x\x0cy z", "p\x85q", "m\x1dn", "v\x0bw",
                     # quotes inside a value (all double quotes are dropped)
                     '5" pvc', 'said "ok" twice', '"', "it's"]),
    st.text("abcXYZ019 ._-;|", max_size=6).map(lambda s: s.strip()))
# what a numeric column of a mapping file may hold (each is a float or an
# int to Python, or neither - then the text stays)
NUMERIC_TEXT = st.sampled_from([
    "7", "-3", "2.5", "1e3", "007", "5.0", "1e-05", "2.5E+16", "-4.2E-07",
    "inf", "1_0", "+4", "0x10", ".5", "5.", "12.0", "9007199254740993",
    "1234567890123456789", "-9007199254740993", "1e400", "3,5", "1 000"])
COLS = ["Treatment", "pH", "Days", "taxonomy", "KEGG", "Body Site", "Notes",
        # names that differ from another one only in case are other names
        "PH", "days", "Taxonomy"]
OVERRIDE_NAMES = ["SampleID", "c1", "c2", "c3", "c4", "c5", "c6", "c7"]


@st.composite
def file_case(draw, tier):
    ncols = draw(st.integers(1, 5))
    cols = draw(st.lists(st.sampled_from(COLS), min_size=ncols,
                         max_size=ncols, unique=True))
    nrows = draw(st.integers(1, 6))
    ids = ["id%d" % i for i in range(nrows)]
    if draw(st.booleans()):
        ids = list(draw(st.permutations(["s0", "s1", "s2", "o0", "o1", "x9",
                                         "s3", "o2"])))[:nrows]
    rows = []
    for i in ids:
        k = draw(st.sampled_from([ncols, ncols, ncols, max(ncols - 1, 0),
                                  ncols + 1, 0]))
        fields = [draw(FIELD) for _ in range(k)]
        rows.append({"id": i, "fields": fields,
                     "quote": draw(st.sampled_from([False, False, True])),
                     "pad": draw(st.sampled_from([False, False, True]))})
    extras = draw(st.lists(st.tuples(
        st.integers(0, nrows), st.sampled_from(["comment", "blank",
                                                "spaces"])), max_size=3))
    header_override = None
    if draw(st.integers(0, 3)) == 0:
        k = draw(st.integers(1, ncols + 1))
        header_override = OVERRIDE_NAMES[:k]
        if k >= 4 and draw(st.booleans()):
            # entry k names column k: a placeholder name may repeat (the
            # last column of that name wins), names after it stay in place
            header_override = list(header_override)
            header_override[1] = header_override[2] = "skip"
    has_header_line = header_override is None or draw(st.booleans())
    opts = {}
    for name in ("sc_separated", "sc_pipe_separated", "int_fields",
                 "float_fields"):
        pool = cols if header_override is None else header_override[1:]
        if pool and draw(st.integers(0, 2)) == 0:
            opts[name] = draw(st.lists(st.sampled_from(pool), min_size=1,
                                       max_size=2, unique=True))
    names = cols if header_override is None else header_override[1:]
    for name in set(opts.get("int_fields", []) + opts.get("float_fields", [])):
        for p_, nm in enumerate(names):
            if nm != name:
                continue
            for r in rows:
                if p_ < len(r["fields"]) and draw(st.integers(0, 3)) != 0:
                    r["fields"][p_] = draw(NUMERIC_TEXT)
    inp = draw(st.sampled_from(["list", "handle", "path", "cli_json",
                                "cli_json", "cli_hdf5"]))
    axis = draw(ops.AX)
    if inp == "cli_hdf5":
        # HDF5 output needs the same plain-text categories on every ID
        t_ids = ["s0", "s1", "s2", "s3"] if axis == "sample" else \
            ["o0", "o1", "o2"]
        opts = {}
        # reserved hierarchical names are list-valued in HDF5 by definition
        cols = [c + "_text" if c in ("taxonomy", "Taxonomy") else c
                for c in cols]
        have = {r["id"] for r in rows}
        for i in t_ids:
            if i not in have:
                rows.append({"id": i, "fields": [draw(FIELD)
                                                 for _ in range(ncols)],
                             "quote": False, "pad": draw(st.booleans())})
        if header_override is not None and len(header_override) < 2:
            header_override = None
            has_header_line = True
    return {"part": "file", "cols": cols, "rows": rows, "extras": extras,
            "header_override": header_override,
            "has_header_line": has_header_line, "opts": opts,
            "input": inp, "axis": axis, "crlf": False,
            "sub": inp.startswith("cli") and
            draw(st.sampled_from([False] * 40 + [True]))}


def strategy(tier):
    return st.one_of(api_case(tier), file_case(tier))


# ---------------------------------------------------------------------------

def model_add(md, ids, mapping):
    """Statement: keys set on exactly the IDs in both mapping and table,
    same-named keys overwritten, other keys kept, unknown IDs ignored."""
    out = [dict(m) if m else {} for m in md] if md is not None else \
        [{} for _ in ids]
    for k, i in enumerate(ids):
        if i in mapping:
            out[k].update(deepcopy(mapping[i]))
    return out


def check(case, rec):
    rec.cls("part:" + case["part"])
    if case["part"] == "api":
        return check_api(case, rec)
    return check_file(case, rec)


def check_api(case, rec):
    t = gen.build(case["table"], rec=rec)
    before = observe.snapshot(t)
    ref = Ref.from_snapshot(before)
    what = case["what"]
    rec.cls("what:" + what)
    # "...and nothing else": a table derived from this one earlier (here by
    # re-ordering both axes to the order they already have) is not touched
    sibling = t.sort_order(list(ref.obs), axis="observation").sort_order(
        list(ref.samp), axis="sample")
    sib_before = observe.snapshot(sibling)
    if what == "add":
        axis = case["axis"]
        ids = ref.ids(axis)
        mk = ops.mask_for(len(ids), case["mask"])
        chosen = [i for i, k in zip(ids, mk) if k]
        if case.get("only_unknown"):
            chosen = []
            rec.cls("mapping-names-no-table-id")
        # unknown IDs, the first of them a near miss of a real one (the
        # longest ID of the axis, extended)
        longest = max(ids, key=len)
        unknown = [u for u in (longest + "0", "unknown-id-1", longest + " x")
                   if u not in ids][:case["extra_ids"]]
        chosen += unknown
        mapping = {i: dict(case["entries"][k % 10])
                   for k, i in enumerate(chosen)}
        arg = deepcopy(mapping)
        was_none = t.metadata(axis=axis) is None
        if len(mapping) % 2:
            t.add_metadata(arg, axis)          # positional
        else:
            t.add_metadata(arg, axis=axis)
        if not any(i in mapping for i in ids):
            # nothing to add: the table is observably what it was, including
            # whether the axis has metadata at all
            if (t.metadata(axis=axis) is None) != was_none:
                raise Violation("noop-add-changed-table", "add_metadata "
                                "with a mapping naming no ID of the %s axis "
                                "changed metadata() from %s to %r" %
                                (axis, "None" if was_none else "present",
                                 t.metadata(axis=axis)))
        want = {"observation": ref.obs_md, "sample": ref.samp_md}
        want[axis] = model_add(ref.md(axis), ids, mapping)
        left_out = [i for i in ids if i not in mapping]
        if left_out and len(ids) % 2 == 0:
            # a second call, for an ID the first one did not name (each ID
            # has a record of its own, also the ones never mentioned)
            second = {left_out[-1]: {"second-call": "only-here"}}
            t.add_metadata(deepcopy(second), axis=axis)
            want[axis] = model_add(want[axis], ids, second)
            rec.cls("second-add-for-a-left-out-id")
        in_both = [i for i in ids if i in mapping]
        share = ref.md(axis) is not None and any(
            set(mapping[i]) & set(ref.md_of(axis, ids.index(i)) or {})
            for i in in_both)
        rec.nt(0 < len(in_both) < len(ids) and case["extra_ids"] > 0 and
               share)
    else:
        axis = case["axis"]
        keys = case["keys"]
        if keys is not None and len(keys) % 2:
            t.del_metadata(keys, axis)         # positional
        else:
            t.del_metadata(keys=keys, axis=axis)
        want = {}
        for ax in ("observation", "sample"):
            md = ref.md(ax)
            if md is None or (axis != "whole" and axis != ax):
                want[ax] = md
            elif keys is None:
                want[ax] = None
            else:
                want[ax] = [{k: v for k, v in m.items() if k not in keys}
                            for m in md]
        present = any(k in (m or {}) for ax in ("observation", "sample")
                      for m in (ref.md(ax) or []) for k in (keys or []))
        rec.nt(keys is not None and present and
               any(k not in KEYS for k in keys))
    after = observe.snapshot(t)
    if observe.snapshot(sibling) != sib_before:
        raise Violation("other-table-changed", "%s on one table changed a "
                        "table derived from it earlier: %r -> %r" %
                        (what, (sib_before["obs_md"], sib_before["samp_md"]),
                         (observe.snapshot(sibling)["obs_md"],
                          observe.snapshot(sibling)["samp_md"])))

    def bad(sub, msg):
        raise Violation(sub, "%s [%s %r; before %r]" %
                        (msg, what, {k: v for k, v in case.items()
                                     if k not in ("table", "entries")},
                         before))
    if after["obs"] != before["obs"] or after["samp"] != before["samp"]:
        bad("ids-changed", "ids %r / %r" % (after["obs"], after["samp"]))
    if after["rows"] != before["rows"]:
        bad("values-changed", "matrix %r" % (after["rows"],))
    for ax, key in (("observation", "obs_md"), ("sample", "samp_md")):
        if not observe.md_equal(after[key], want[ax]):
            bad("metadata", "%s metadata %r, expected %r" %
                (ax, after[key], want[ax]))
    # the table still answers per-ID metadata queries consistently
    for ax, key in (("observation", "obs"), ("sample", "samp")):
        md = t.metadata(axis=ax)
        for k, i in enumerate(after[key]):
            one = t.metadata(i, axis=ax)
            if (md is None) != (one is None) or \
                    (md is not None and one is not md[k]):
                bad("metadata-lookup", "metadata(%r, %s) inconsistent" %
                    (i, ax))


# ---------------------------------------------------------------------------

def render(case):
    """The mapping file text (list of lines without newline)."""
    lines = []
    header = "#SampleID\t" + "\t".join(case["cols"])
    body = []
    for r in case["rows"]:
        fields = [r["id"]] + list(r["fields"])
        if r["quote"]:
            fields = ['"%s"' % f for f in fields]
        if r["pad"]:
            fields = [" %s  " % f for f in fields]
        body.append("\t".join(fields))
    out = []
    if case["has_header_line"]:
        out.append(header)
    extras = {}
    for pos, kind in case["extras"]:
        extras.setdefault(pos, []).append(kind)
    for k in range(len(body) + 1):
        for kind in extras.get(k, []):
            out.append({"comment": "#a comment\twith a tab", "blank": "",
                        "spaces": "   "}[kind])
        if k < len(body):
            out.append(body[k])
    return out


def convert(name, opts):
    """The per-column conversion the options request (option help)."""
    def f(v):
        if name in opts.get("float_fields", []):
            try:
                return float(v)
            except ValueError:
                return v
        if name in opts.get("int_fields", []):
            try:
                return int(v)
            except ValueError:
                return v
        if name in opts.get("sc_pipe_separated", []):
            return [[e.strip() for e in y.split(";")] for y in v.split("|")]
        if name in opts.get("sc_separated", []):
            return [e.strip() for e in v.split(";")]
        return v
    return f


def reference_parse(case, lines):
    """Reference parser written from the from_file docstring."""
    header = list(case["header_override"] or [])
    data = []
    for line in lines:
        line = line.replace('"', "").strip()
        if not line:
            continue
        if line.startswith("#"):
            if not header:
                header = line[1:].strip().split("\t")
            continue
        fields = [f.replace('"', "").strip() for f in line.split("\t")]
        fields += [""] * (len(header) - len(fields))
        data.append(fields)
    mapping = {}
    for fields in data:
        mapping[fields[0]] = {k: convert(k, case["opts"])(v)
                              for k, v in zip(header[1:], fields[1:])}
    return mapping


def _bad_number(v):
    return isinstance(v, float) and (v != v or v in (float("inf"),
                                                     float("-inf")))


def check_file(case, rec):
    from biom.parse import MetadataMap
    from biom import Table, load_table
    lines = render(case)
    how = case["input"]
    rec.cls("input:" + how)
    want = reference_parse(case, lines)
    if any(_bad_number(v) for m in want.values() for v in m.values()):
        rec.skip("nan/inf text in a float column")
        return
    pf = {}
    opts = case["opts"]
    # later options override earlier ones, as in _add_metadata
    # process functions handed to from_file(process_fns=...): the documented
    # per-column conversions (later options override earlier ones, as in
    # the add-metadata command)
    for name in ("sc_separated", "sc_pipe_separated", "int_fields",
                 "float_fields"):
        for col in opts.get(name, []):
            pf[col] = convert(col, {name: [col]})
    text = "\n".join(lines) + "\n"

    def bad(sub, msg):
        raise Violation(sub, "%s [input %s, override %r, opts %r, file %r]" %
                        (msg, how, case["header_override"], opts, text))

    short = any(len(r["fields"]) < len(case["cols"]) for r in case["rows"])
    comment_after = any(k == "comment" for _, k in case["extras"])
    rec.cls("short-row", short)
    rec.cls("comment-line", comment_after)
    rec.cls("header-override", case["header_override"] is not None)
    if how in ("list", "handle", "path"):
        with tempfile.TemporaryDirectory(prefix="vf-c18-", dir=TMP) as d:
            if how == "list":
                arg = [ln + "\n" for ln in lines]
            elif how == "handle":
                arg = io.StringIO(text)
            else:
                arg = os.path.join(d, "map.txt")
                with open(arg, "w", encoding="utf8") as f:
                    f.write(text)
            held = list(arg) if how == "list" else None
            hdr = case["header_override"]
            hdr_held = list(hdr) if hdr is not None else None
            got = MetadataMap.from_file(arg, process_fns=pf, header=hdr)
            if (held is not None and arg != held) or hdr != hdr_held:
                bad("input-modified", "from_file changed the list of lines "
                    "/ header names it was given")
        got = {k: dict(v) for k, v in got.items()}
        if got != want:
            bad("mapping-parse", "parsed %r, the rows describe %r" %
                (got, want))
        rec.nt(short and comment_after)
        return

    # add-metadata command on a small table whose IDs partly overlap
    axis = case["axis"]
    t_ids = ["s0", "s1", "s2", "s3"] if axis == "sample" else \
        ["o0", "o1", "o2"]
    if how == "cli_hdf5":
        # HDF5 needs the same plain-text categories on every ID
        if opts or not set(t_ids) <= set(want) or \
                any(not m for m in want.values()):
            how = "cli_json"
    a = np.arange(12, dtype=float).reshape(3, 4)
    t = Table(a, ["o0", "o1", "o2"], ["s0", "s1", "s2", "s3"],
              type="OTU table")
    from ..cli import command
    add_metadata = command("add-metadata")
    with tempfile.TemporaryDirectory(prefix="vf-c18-", dir=TMP) as d:
        inp, mp, out = (os.path.join(d, x) for x in ("in.biom", "map.txt",
                                                     "out.biom"))
        import h5py
        with h5py.File(inp, "w") as f:
            t.to_hdf5(f, "vf")
        with open(mp, "w", encoding="utf8") as f:
            f.write(text)
        args = ["-i", inp, "-o", out]
        args += ["-m", mp] if axis == "sample" else \
            ["--observation-metadata-fp", mp]
        for name, flag in (("sc_separated", "--sc-separated"),
                           ("sc_pipe_separated", "--sc-pipe-separated"),
                           ("int_fields", "--int-fields"),
                           ("float_fields", "--float-fields")):
            if opts.get(name):
                args += [flag, ",".join(opts[name])]
        if case["header_override"]:
            args += ["--sample-header" if axis == "sample" else
                     "--observation-header",
                     ",".join(case["header_override"])]
        both = how == "cli_json" and len(case["rows"]) % 2 == 0
        if both:
            # a mapping file for the other axis in the same call
            o_ids = ["o0", "o1", "o2"] if axis == "sample" else \
                ["s0", "s1", "s2", "s3"]
            mp2 = os.path.join(d, "map-other.txt")
            with open(mp2, "w", encoding="utf8") as f:
                f.write("#ID\tExtra\n" + "".join(
                    "%s\te-%s\n" % (i, i) for i in o_ids))
            args += ["--observation-metadata-fp", mp2] if axis == "sample" \
                else ["-m", mp2]
            rec.cls("cli:both-mapping-files")
        if how == "cli_json":
            args.append("--output-as-json")
        if any("," in c for c in case["cols"]):
            rec.skip("comma in a column name cannot be passed to the CLI")
            return
        from ..cli import invoke
        rc, out_ = invoke(add_metadata, "add-metadata", args,
                          case.get("sub", False))
        if rc != 0:
            bad("cli-exit", "add-metadata exited %r: %s" % (rc, out_[-300:]))
        r = observe.snapshot(load_table(out))
    rec.cls("cli:" + how)
    if r["obs"] != ["o0", "o1", "o2"] or r["samp"] != ["s0", "s1", "s2",
                                                      "s3"] or \
            r["rows"] != a.tolist():
        bad("cli-table-changed", "ids/values changed: %r" % (r,))
    exp = model_add(None, t_ids, want)
    have = r["samp_md"] if axis == "sample" else r["obs_md"]
    other = r["obs_md"] if axis == "sample" else r["samp_md"]
    if not observe.md_equal(have, exp):
        bad("cli-metadata", "%s metadata %r, expected %r" % (axis, have, exp))
    if both:
        want_other = [{"Extra": "e-%s" % i} for i in o_ids]
        if not observe.md_equal(other, want_other):
            bad("cli-metadata", "the other axis (second mapping file) has "
                "metadata %r, expected %r" % (other, want_other))
    elif other is not None:
        bad("cli-metadata", "other axis got metadata %r" % (other,))
    in_both = [i for i in t_ids if i in want]
    rec.nt(0 < len(in_both) and len(want) > len(in_both) or
           (short and comment_after))
