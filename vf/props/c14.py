"""C14 - subsetting while reading equals reading everything and then
filtering."""
import io
import json
import os
import tempfile

import numpy as np
from hypothesis import strategies as st

from .. import gen, observe, ops
from ..model import Ref, agree
from ..core import Violation
from . import c01
from ..cli import SUB

ID = "C14"
LEVEL = "exploration"
RULE = ("HDF5-domain table written by the library as HDF5 and JSON x axis x "
        "non-empty ID subset in drawn order x variant {from_hdf5(ids), "
        "from_hdf5(ids, subset_with_metadata=False), parse_table(json, ids) "
        "(also with nothing requested), parse_table(open HDF5 file, ids), "
        "subset-table -i, subset-table -j on the JSON text re-serialised "
        "compact / spaced / indented} plus requests naming an unknown ID; "
        "oracle = load everything, filter in the reference model, drop "
        "all-zero other-axis vectors for the variants documented to do so; "
        "non-trivial = proper subset that leaves an all-zero other-axis "
        "vector, or a JSON serialisation other than the library's own, on a "
        "table with >= 1 non-zero; distinct = canonical hash")
BUDGET = {"quick": {"shards": 16, "examples": 200},
          "thorough": {"shards": 16, "examples": 5000}}
FUZZ_SECONDS = 120   # thorough tier: atheris campaign on the same property
ASSUMPTIONS = ["'every JSON serialisation' = json.dumps of the same document "
               "with different separators / indentation (member order kept)"]
TMP = c01.TMP

VARIANTS = ["from_hdf5", "from_hdf5_nomd", "parse_json", "cli_hdf5",
            "cli_json", "parse_hdf5"]
STYLES = ["library", "default", "indent1", "indent2", "indent4", "spaced",
          "compact"]


@st.composite
def cases(draw, tier):
    variant = draw(st.sampled_from(VARIANTS + ["cli_json"]))
    idk = "tsv" if variant.startswith("cli") else \
        draw(st.sampled_from(["unicode", "simple"]))
    vk = draw(st.sampled_from(["wild", "count", "int", "small", "small"]))
    shape = None
    if variant == "cli_json" and draw(st.integers(0, 2)) == 0:
        # two-digit positions on one axis (the text slicer works on index
        # strings; orderings of "9" and "10" must not matter)
        big, small = draw(st.integers(9, 14)), draw(st.integers(1, 4))
        shape = (big, small) if draw(st.booleans()) else (small, big)
    spec = draw(gen.h5_table_specs(tier, values=vk, ids=idk, shape=shape,
                                   big=True))
    spec["obs_gmd"] = spec["samp_gmd"] = None
    axis_, mask_ = draw(ops.AX), draw(ops.MASK)
    n_ax = len(spec["samp"] if axis_ == "sample" else spec["obs"])
    kept = [i for i, k in enumerate(ops.mask_for(n_ax, mask_)) if k]
    n_other = len(spec["obs"] if axis_ == "sample" else spec["samp"])
    if len(kept) >= 2 and n_other and draw(st.integers(0, 3)) == 0:
        # an other-axis vector that is NOT all-zero within the requested
        # subset although its kept entries sum to exactly zero
        q = draw(st.integers(0, n_other - 1))
        x = draw(st.sampled_from([1.0, 2.5, 3.0, 1e300]))
        rows = [list(r) for r in spec["rows"]]
        for i in range(n_ax):
            if axis_ == "sample":
                rows[q][i] = 0.0
            else:
                rows[i][q] = 0.0
        a, b = kept[0], kept[-1]
        if axis_ == "sample":
            rows[q][a], rows[q][b] = x, -x
        else:
            rows[a][q], rows[b][q] = x, -x
        spec["rows"] = rows
        spec["history"] = []
    return {"table": spec, "axis": axis_, "mask": mask_,
            "order": draw(ops.KEY), "variant": variant,
            "style": draw(st.sampled_from(STYLES)),
            "unknown": draw(st.sampled_from([False] * 6 + ["fixed", "suffix",
                                                           "prefix", "case"])),
            "empty_request": variant == "parse_json" and
            draw(st.integers(0, 5)) == 0,
            "sub": variant.startswith("cli") and draw(st.sampled_from(SUB))}


def strategy(tier):
    return cases(tier)


def reserialise(text, style):
    if style == "library":
        return text
    doc = json.loads(text)
    if doc.get("matrix_type") == "sparse":
        # BIOM 1.0 does not prescribe an order of the [row, col, value]
        # triples: other writers list them column by column or backwards
        if style in ("default", "spaced", "indent2"):
            doc["data"] = doc["data"][::-1]
        elif style == "compact":
            doc["data"] = sorted(doc["data"], key=lambda x: (x[1], x[0]))
    if style == "default":
        return json.dumps(doc)
    if style == "compact":
        return json.dumps(doc, separators=(",", ":"))
    if style == "spaced":
        return json.dumps(doc, separators=(", ", ": "), ensure_ascii=False)
    return json.dumps(doc, indent=int(style[6:]))


def check(case, rec):
    import h5py
    from biom import Table, load_table
    from biom.parse import parse_biom_table
    spec = case["table"]
    axis, variant = case["axis"], case["variant"]
    t = gen.build_h5(spec, rec=rec)
    src = observe.snapshot(t)
    if not observe.all_finite(src):
        rec.skip("history overflowed to a non-finite value")
        return
    rec.cls("variant:" + variant)
    other_axis = "observation" if axis == "sample" else "sample"
    with tempfile.TemporaryDirectory(prefix="vf-c14-", dir=TMP) as d:
        h5p = os.path.join(d, "t.biom")
        if "hdf5" in variant and len(src["obs"]) % 2:
            # the path held another table a moment ago, and a subset of it
            # was read: what is read next is what the path holds now
            from biom import Table as _T
            other = _T(np.array([[5.0, 0.0], [0.0, 7.0]]),
                       ["earlier-o1", "earlier-o2"],
                       ["earlier-s1", "earlier-s2"],
                       [{"k": "x"}, {"k": "y"}], [{"k": "z"}, {"k": "w"}])
            with h5py.File(h5p, "w") as f:
                other.to_hdf5(f, "earlier")
            with h5py.File(h5p, "r") as f:
                _T.from_hdf5(f, ids=["earlier-s1"], axis="sample")
                _T.from_hdf5(f, ids=["earlier-o2"], axis="observation",
                             subset_with_metadata=False)
            rec.cls("path-held-another-table-before")
        with h5py.File(h5p, "w") as f:
            t.to_hdf5(f, "vf")
        jtext = t.to_json("vf")
        # ground truth: everything, loaded from the same file
        full = observe.snapshot(load_table(h5p) if "hdf5" in variant
                                else parse_biom_table(io.StringIO(jtext)))
        ref = Ref.from_snapshot(full)
        ids = ref.ids(axis)
        mk = ops.mask_for(len(ids), case["mask"])
        chosen = [x for x, k in zip(ids, mk) if k]
        chosen = [chosen[i] for i in
                  ops.perm_from_key(len(chosen), case["order"])]
        if case.get("empty_request") and not case["unknown"]:
            # nothing requested (the JSON route is a filter: nothing is kept)
            chosen = []
            rec.cls("empty-request")
        request = list(chosen)
        if case["unknown"]:
            # an ID that is not in the file: unrelated, or a near miss of an
            # existing one (longest ID + suffix, truncated, case-flipped)
            longest = max(ids, key=len)
            cand = {"fixed": "id-that-is-not-in-the-file",
                    "suffix": longest + "_rep2",
                    "prefix": longest[:-1] or "q",
                    "case": longest.swapcase()}.get(case["unknown"],
                                                    "id-that-is-not-in-the-file")
            if cand in ids or not cand.strip() or cand != cand.strip() or \
                    cand.startswith("#"):
                cand = "id-that-is-not-in-the-file"
            if case["unknown"] != "fixed" and longest in request and \
                    len(request) > 1:
                request.remove(longest)
            request.insert(len(request) // 2, cand)
            rec.cls("unknown-id-request:%s" % case["unknown"])
        exp = ref.filter_ids(axis, chosen)
        drops = variant in ("from_hdf5", "parse_json", "cli_hdf5",
                            "parse_hdf5")
        exp_dropped = exp.take(other_axis, exp.nonempty_idx(other_axis))
        left_zero = len(exp_dropped.ids(other_axis)) < len(exp.ids(other_axis))
        if drops:
            exp = exp_dropped

        def run():
            if variant == "from_hdf5":
                with h5py.File(h5p, "r") as f:
                    return Table.from_hdf5(f, ids=request, axis=axis)
            if variant == "from_hdf5_nomd":
                with h5py.File(h5p, "r") as f:
                    return Table.from_hdf5(f, ids=request, axis=axis,
                                           subset_with_metadata=False)
            if variant == "parse_json":
                return parse_biom_table(io.StringIO(jtext), ids=request,
                                        axis=axis)
            if variant == "parse_hdf5":
                # the general entry point, given an open HDF5 file
                with h5py.File(h5p, "r") as f:
                    return parse_biom_table(f, ids=request, axis=axis)
            idp = os.path.join(d, "ids.txt")
            with open(idp, "w", encoding="utf8") as f:
                # (the last line may or may not end with a newline)
                f.write("#comment line\n" + "\n".join(request) +
                        ("\n" if len(request) % 2 else ""))
            out = os.path.join(d, "out.biom")
            from ..cli import command
            subset_table = command("subset-table")
            if variant == "cli_hdf5":
                args = ["-i", h5p]
            else:
                jp = os.path.join(d, "t.json")
                with open(jp, "w", encoding="utf8") as f:
                    f.write(reserialise(jtext, case["style"]))
                args = ["-j", jp]
                rec.cls("style:" + case["style"])
            from ..cli import invoke
            rc, out_ = invoke(subset_table, "subset-table",
                              args + ["-a", axis, "-s", idp, "-o", out],
                              case.get("sub", False))
            if rc != 0:
                raise Violation("cli-exit", "subset-table exited %r: %s" %
                                (rc, out_[-300:]))
            return load_table(out)

        if case["unknown"]:
            if variant == "parse_json":
                rec.skip("parse_table(ids=) is a filter; unknown ids are "
                         "not covered by the statement")
                return
            try:
                r = run()
            except Exception:
                rec.nt(True)
                return
            raise Violation("unknown-id-accepted", "%s accepted a request "
                            "naming an unknown id: %r -> ids %r" %
                            (variant, request, observe.snapshot(r)[
                                "samp" if axis == "sample" else "obs"]))
        r = run()
        got = observe.snapshot(r)
        observe.check_lookups(r, got, variant + " result")

    with_md = variant != "from_hdf5_nomd"
    msg = None
    if got["obs"] != exp.obs or got["samp"] != exp.samp:
        msg = "ids %r / %r, expected %r / %r" % (got["obs"], got["samp"],
                                                 exp.obs, exp.samp)
    elif exp.obs and exp.samp and got["rows"] != exp.rows:
        msg = "values %r, expected %r" % (got["rows"], exp.rows)
    elif with_md and not (
            c01.md_numeric_equal(got["obs_md"], exp.obs_md) and
            c01.md_numeric_equal(got["samp_md"], exp.samp_md)):
        msg = "metadata %r / %r, expected %r / %r" % (
            got["obs_md"], got["samp_md"], exp.obs_md, exp.samp_md)
    if msg:
        raise Violation("subset-differs", "%s(%s, request %r%s): %s" % (
            variant, axis, request,
            ", style " + case["style"] if variant == "cli_json" else "", msg))
    has_nz = any(x != 0 for row in full["rows"] for x in row)
    proper = len(chosen) < len(ids)
    rec.cls("leaves-all-zero-other-axis-vector", left_zero)
    rec.nt(has_nz and ((proper and left_zero) or
                       (variant == "cli_json" and case["style"] != "library")))


REGRESSIONS = [
    {"table": {"obs": ["o1", "o2"], "samp": ["s1", "s2", "s3"],
               "rows": [[1.0, 0.0, 2.0], [0.0, 3.0, 0.0]], "shape": [2, 3],
               "obs_md": None, "samp_md": None, "type": None,
               "table_id": None, "form": "dense", "history": [],
               "obs_gmd": None, "samp_gmd": None},
     "axis": "sample", "mask": [True, False, True], "order": [0],
     "variant": v, "style": s, "unknown": "fixed" if u else False}
    for v, s, u in [("from_hdf5", "library", False),
                    ("from_hdf5_nomd", "library", False),
                    ("from_hdf5_nomd", "library", True),
                    ("cli_json", "default", False),
                    ("cli_json", "indent2", False),
                    ("cli_hdf5", "library", True)]
] + [
    {"table": {"obs": ["o[1]", "o\"2"], "samp": ["s{1", "s2}"],
               "rows": [[1.0, 2.0], [0.0, 3.0]], "shape": [2, 2],
               "obs_md": [{"k": "a]b"}, {"k": "c\"d"}], "samp_md": None,
               "type": None, "table_id": None, "form": "dense", "history": [],
               "obs_gmd": None, "samp_gmd": None},
     "axis": "observation", "mask": [True, False], "order": [0],
     "variant": "cli_json", "style": "library", "unknown": False},
    {"table": {"obs": ["o1", "o2", "o3"], "samp": ["s1", "s2"],
               "rows": [[1.0, 0.0], [0.0, 3.0], [4.0, 5.0]], "shape": [3, 2],
               "obs_md": None, "samp_md": None, "type": None,
               "table_id": None, "form": "dense", "history": [],
               "obs_gmd": None, "samp_gmd": None},
     "axis": "observation", "mask": [True, False, True], "order": [0],
     "variant": "cli_json", "style": "indent2", "unknown": False,
     "sub": True},
]
