"""C16 - equality and serialisation depend only on content, never on
representation."""
import io
import json
from copy import deepcopy
from datetime import datetime

import numpy as np
from hypothesis import strategies as st

from .. import gen, ops, observe, h5spec
from ..core import Violation

ID = "C16"
LEVEL = "exploration"
RULE = ("one content spec realised through 2-3 routes (constructor form x "
        "layout recipe x content-preserving history) with read accessors "
        "interleaved; non-trivial = at comparison time the routes differ in "
        "sparse format, index sortedness or stored-entry count, or the case "
        "is a single-difference pair; distinct = canonical-JSON hash")
BUDGET = {"quick": {"shards": 16, "examples": 120},
          "thorough": {"shards": 16, "examples": 2500}}
ASSUMPTIONS = ["numpy/scipy toarray and h5py are trusted",
               "compiled kernels exercised as built (no Cython in sandbox)"]

DATE = datetime(2020, 1, 2, 3, 4, 5)

ACCESS = st.one_of(
    st.just({"op": "nnz"}),
    st.builds(lambda a, i: {"op": "data", "axis": a, "i": i}, ops.AX,
              st.integers(0, 7)),
    st.builds(lambda a: {"op": "iter", "axis": a}, ops.AX),
    st.builds(lambda a: {"op": "sum", "axis": a},
              st.sampled_from(["sample", "observation", "whole"])),
    st.just({"op": "eq_copy"}),
    st.just({"op": "str"}),
    st.just({"op": "nonzero"}),
)

ROUTE_FORMS = gen.FORMS + ["csr_zeros", "csc_zeros", "coo_zeros",
                           "csr_unsorted", "list_sparse_csr",
                           "list_sparse_csc", "list_sparse_coo"]


@st.composite
def routes(draw, untyped, equal_totals, f32_exact=False):
    # rename every ID of an axis to its successor's name, then back: the
    # same content again, reached through two re-keyings of the lookup
    extra = [st.builds(lambda a, ip: {"op": "rotate_ids2", "axis": a,
                                      "inplace": ip}, ops.AX, st.booleans())]
    if untyped:
        extra.append(st.just({"op": "transpose2"}))
    if equal_totals is not None:
        extra.append(st.builds(
            lambda s: {"op": "subsample_full", "axis": equal_totals[0],
                       "n": equal_totals[1], "seed": s},
            st.integers(0, 2 ** 16)))
    el = st.one_of(ops.read_ops(), *extra) if extra else ops.read_ops()
    forms = ROUTE_FORMS + (gen.FORMS_F32 if f32_exact else [])
    return {"form": draw(st.sampled_from(forms)),
            "md_none": draw(st.sampled_from(["none", "nones", "empties"])),
            "md_keys": draw(st.sampled_from(["as-given", "reversed"])),
            "history": draw(st.lists(el, max_size=4)),
            # the content is reached by doubling a table built with halved
            # values in place, after some reads (and followed by the
            # history above)
            "halved": draw(st.sampled_from([None, None, None, "sample",
                                            "observation"])),
            "reads": draw(st.lists(ACCESS, max_size=3))}


def _equal_totals(rows):
    """(axis, n) when every vector on that axis has the same positive integer
    total and all entries are non-negative integers; else None."""
    a = np.asarray(rows)
    if a.size == 0 or np.any(a < 0) or np.any(a != np.floor(a)):
        return None
    for axis, tot in (("sample", a.sum(axis=0)), ("observation",
                                                   a.sum(axis=1))):
        if tot[0] > 0 and np.all(tot == tot[0]) and tot[0] < 2 ** 30:
            # every other-axis vector must keep at least one count, else
            # subsample (by design) drops it
            other = a.sum(axis=1) if axis == "sample" else a.sum(axis=0)
            if np.all(other > 0):
                return (axis, int(tot[0]))
    return None


@st.composite
def cases(draw, tier):
    kind = draw(st.sampled_from(["int", "dyadic", "wild", "count", "count"]))
    spec = draw(gen.table_specs(tier, values=kind, ids="simple", md=True,
                                history=False, forms=False))
    et = _equal_totals(spec["rows"])
    untyped = spec["type"] is None
    nroutes = draw(st.sampled_from([2, 2, 3]))
    # sequence-valued metadata handed over as tuples; group metadata
    spec["md_tuples"] = draw(st.sampled_from([False, False, True]))
    if draw(st.sampled_from([False, False, True])):
        spec["obs_gmd"] = {"tree": ["newick", "((a,b),c);"]}
        spec["samp_gmd"] = {"graph": ["text", "g"]} \
            if draw(st.booleans()) else None
    case = {"kind": kind, "spec": spec,
            # single-precision sparse input is one more route when every
            # value is exactly representable in it
            "routes": [draw(routes(untyped, et, kind in ("int", "dyadic",
                                                         "count")))
                       for _ in range(nroutes)],
            "access": draw(st.lists(ACCESS, max_size=4)),
            "diff": None}
    if draw(st.integers(0, 3)) == 0:
        n, m = len(spec["obs"]), len(spec["samp"])
        k = draw(st.sampled_from(["value", "ulp", "ulp", "id", "order", "md",
                                  "type", "type-spelling"]))
        d = {"kind": k, "axis": draw(ops.AX), "i": draw(st.integers(0, 7)),
             "j": draw(st.integers(0, 7)),
             "to": draw(st.sampled_from([0.0, 1.0, 7.5, -2.0]))}
        case["diff"] = d
    return case


def strategy(tier):
    return cases(tier)


def _apply_read(t, op):
    if op["op"] == "transpose2":
        return t.transpose().transpose()
    if op["op"] == "rotate_ids2":
        ids = [str(i) for i in t.ids(axis=op["axis"])]
        if len(ids) < 2:
            return t
        rot = {ids[k]: ids[(k + 1) % len(ids)] for k in range(len(ids))}
        back = {v: k for k, v in rot.items()}
        t = t.update_ids(rot, axis=op["axis"], inplace=op["inplace"])
        return t.update_ids(back, axis=op["axis"], inplace=op["inplace"])
    if op["op"] == "subsample_full":
        return t.subsample(op["n"], axis=op["axis"], seed=op["seed"])
    return ops.apply_op(t, op)


def _build_route(spec, route):
    s = {k: v for k, v in spec.items() if k != "__exact__"}
    s["form"] = route["form"]
    for k in ("obs_md", "samp_md"):
        if s.get(k) is None:
            n = len(s["obs"] if k == "obs_md" else s["samp"])
            if route["md_none"] == "nones":
                s[k] = [None] * n
            elif route["md_none"] == "empties":
                s[k] = [{} for _ in range(n)]
        elif route.get("md_keys") == "reversed":
            # the same records, their keys inserted in another order
            s[k] = [dict(reversed(list(m_.items()))) if q % 2 == 0 and m_
                    else m_ for q, m_ in enumerate(s[k])]
    halved = route.get("halved") if spec.get("__exact__") else None
    if halved:
        s["rows"] = [[x / 2 for x in r] for r in s["rows"]]
    t = gen.build(s, with_history=False)
    if halved:
        for op in route.get("reads", []):
            ops.apply_op(t, op)
        t.transform(lambda v, i, md: v * 2, axis=halved, inplace=True)
    for op in route["history"]:
        t = _apply_read(t, op)
    return t


def _mutate(spec, d):
    """Return a spec differing from `spec` in exactly one respect, or None."""
    s = deepcopy(spec)
    n, m = len(s["obs"]), len(s["samp"])
    k = d["kind"]
    if k == "value":
        i, j = d["i"] % n, d["j"] % m
        new = d["to"]
        if s["rows"][i][j] == new:
            new = new + 1.0
        s["rows"][i][j] = new
        return s
    if k == "ulp":
        # the smallest possible difference: one cell moved by one unit in
        # the last place (a zero cell becomes the smallest subnormal)
        import math
        i, j = d["i"] % n, d["j"] % m
        old = s["rows"][i][j]
        new = math.nextafter(old, math.inf)
        if new == old or new in (math.inf, -math.inf):
            new = math.nextafter(old, -math.inf)
        s["rows"][i][j] = new
        return s
    if k == "id":
        key = "obs" if d["axis"] == "observation" else "samp"
        i = d["i"] % len(s[key])
        s[key][i] = s[key][i] + "_changed"
        return s
    if k == "order":
        key = "obs" if d["axis"] == "observation" else "samp"
        if len(s[key]) < 2:
            return None
        i = d["i"] % len(s[key])
        j = (i + 1 + d["j"] % (len(s[key]) - 1)) % len(s[key])
        s[key][i], s[key][j] = s[key][j], s[key][i]
        mk = key + "_md"
        if s.get(mk) is not None:
            s[mk][i], s[mk][j] = s[mk][j], s[mk][i]
        if key == "obs":
            s["rows"][i], s["rows"][j] = s["rows"][j], s["rows"][i]
        else:
            for r in s["rows"]:
                r[i], r[j] = r[j], r[i]
        return s
    if k == "md":
        mk = "obs_md" if d["axis"] == "observation" else "samp_md"
        if s.get(mk) is None:
            n_ = len(s["obs"] if mk == "obs_md" else s["samp"])
            s[mk] = [{} for _ in range(n_)]
            s[mk][d["i"] % n_] = {"added": "x"}
            return s
        i = d["i"] % len(s[mk])
        s[mk][i] = dict(s[mk][i])
        s[mk][i]["added"] = "x"
        return s
    if k == "type":
        s["type"] = "Gene table" if s["type"] != "Gene table" else None
        return s
    if k == "type-spelling":
        # a type is compared as it is spelled
        s["type"] = {None: "None", "OTU table": "otu table"}.get(
            s["type"], (s["type"] or "") + " ")
        return s
    return None


def _exports(t):
    """Serialise through every writer; decode each with an independent
    reader so the comparison is about content."""
    out = {}
    before_md = (observe.md_list(t, "observation"),
                 observe.md_list(t, "sample"))
    before_eq = t.copy()
    if not (before_eq == t) or not (t == before_eq):
        raise Violation("copy-equals-original", "a copy does not compare "
                        "equal to its original: %r" %
                        (t.descriptive_equality(before_eq),))
    out["tsv"] = t.to_tsv()
    # with one observation-metadata column; a category only some (or none)
    # of the observations carry is exported as missing
    omd = t.metadata(axis="observation")
    if omd is not None:
        keys = sorted({k for m in omd if m for k in m}) + ["absent-key"]
        for key in (keys[0], keys[-1]):
            out["tsv_md:" + ("absent" if key == "absent-key" else "first")] \
                = t.to_tsv(header_key=key, header_value="col",
                           metadata_formatter=lambda v: "%r" % (v,))
    out["json"] = json.loads(t.to_json("vf", creation_date=DATE))
    sio = io.StringIO()
    t.to_json("vf", direct_io=sio, creation_date=DATE)
    out["json_io"] = json.loads(sio.getvalue())
    with h5spec.mem_file() as f:
        t.to_hdf5(f, "vf", creation_date=DATE)
        d = h5spec.decode(f)
    d.pop("problems", None)
    # (group metadata is not content in the sense of the statement: copy()
    # and the reorderings do not carry it, and == ignores it)
    for ax in ("observation", "sample"):
        d[ax].pop("group_metadata", None)
    out["hdf5"] = d
    # exporting is read-only
    if (observe.md_list(t, "observation"),
            observe.md_list(t, "sample")) != before_md or \
            not (t == before_eq):
        raise Violation("export-modifies-table", "metadata before the "
                        "exports %r, after %r" %
                        (before_md, (observe.md_list(t, "observation"),
                                     observe.md_list(t, "sample"))))
    return out


def _queries(t, exact_sums=True, order=0):
    """Every per-ID / per-cell query.  `order` rotates which query family
    touches the table first (an answer that depends on what was asked before
    is exactly what the property forbids)."""
    q = {"obs": [str(i) for i in t.ids(axis="observation")],
         "samp": [str(i) for i in t.ids()]}

    def cells():
        q["cells"] = [[float(t.get_value_by_ids(o, s)) for s in t.ids()]
                      for o in t.ids(axis="observation")]

    def obs_data():
        q["obs_data"] = [t.data(i, axis="observation").tolist()
                         for i in t.ids(axis="observation")]

    def samp_data():
        q["samp_data"] = [t.data(i, axis="sample").tolist()
                          for i in t.ids()]
    def nonzero():
        q["nonzero"] = sorted((str(a), str(b)) for a, b in t.nonzero())

    def extremes():
        # (minimum / maximum *non-zero* value; undefined - an error - for an
        # all-zero vector, which equal tables must then agree on too)
        def ext(f, a):
            try:
                return np.asarray(f(a)).tolist()
            except ValueError:
                return "undefined"
        q["min"] = [ext(t.min, a) for a in ("sample", "observation", "whole")]
        q["max"] = [ext(t.max, a) for a in ("sample", "observation", "whole")]

    def sparse_vectors():
        q["sparse_vectors"] = [
            [np.asarray(v.toarray()).ravel().tolist()
             for v in t.iter_data(axis=a, dense=False)]
            for a in ("sample", "observation")]
        q["nonzero_counts"] = [
            np.asarray(t.nonzero_counts(a)).tolist()
            for a in ("sample", "observation", "whole")]
    fams = [cells, obs_data, samp_data, nonzero, extremes, sparse_vectors]
    k = order % len(fams)
    for f in fams[k:] + fams[:k]:
        f()
    q["obs_md"] = observe.md_list(t, "observation")
    q["samp_md"] = observe.md_list(t, "sample")
    if exact_sums:
        # float sums are order dependent unless every partial sum is exact
        q["sum"] = [t.sum("sample").tolist(), t.sum("observation").tolist()]
    q["nnz"] = int(t.nnz)
    return q


def _verdicts(a, b):
    return {"a==b": bool(a == b), "b==a": bool(b == a),
            "a!=b": bool(a != b), "b!=a": bool(b != a),
            "desc_ab": a.descriptive_equality(b),
            "desc_ba": b.descriptive_equality(a)}


EQUAL = {"a==b": True, "b==a": True, "a!=b": False, "b!=a": False,
         "desc_ab": "Tables appear equal", "desc_ba": "Tables appear equal"}


def check(case, rec):
    spec = dict(case["spec"])
    # halving and doubling is exact for these value kinds only
    spec["__exact__"] = case.get("kind") in ("int", "dyadic", "count")
    rec.cls("route:halved-then-doubled-in-place",
            spec["__exact__"] and any(r.get("halved")
                                      for r in case["routes"]))
    tabs = [_build_route(spec, r) for r in case["routes"]]
    lays = [observe.layout(t) for t in tabs]
    for la in lays:
        rec.cls("fmt:%s" % la.get("format"))
        rec.cls("unsorted", la.get("sorted") is False)
        rec.cls("stored_zeros", bool(la.get("stored_zeros")))
    differ = len({json.dumps(la, sort_keys=True) for la in lays}) > 1
    rec.cls("routes_differ_in_layout", differ)
    rec.nt(differ)

    # every route holds the described content
    ref = np.asarray(spec["rows"], dtype=float)
    for k, t in enumerate(tabs):
        snap = observe.snapshot(t)
        if snap["obs"] != spec["obs"] or snap["samp"] != spec["samp"] or \
                not np.array_equal(np.asarray(snap["rows"]), ref) or \
                not observe.md_equal(snap["obs_md"], spec["obs_md"]) or \
                not observe.md_equal(snap["samp_md"], spec["samp_md"]):
            raise Violation("route-content", "route %d does not hold the "
                            "described content: %r" % (k, snap))

    # per-ID / per-cell queries on *fresh* builds of every route, before
    # anything else (== included) has touched them
    fresh = [_build_route(spec, r) for r in case["routes"]]
    order = len(case["access"]) + len(spec["obs"])
    fq = [_queries(t, case.get("kind") != "wild", order + k)
          for k, t in enumerate(fresh)]
    for k, t_ in enumerate(_build_route(spec, r) for r in case["routes"]):
        observe.check_live_iteration(t_, None, "route %d" % k)
    dense_q = [[float(x) for x in row] for row in ref.tolist()]
    for k, q_ in enumerate(fq):
        if q_["cells"] != dense_q or q_["obs_data"] != dense_q or \
                q_["samp_data"] != [list(c) for c in zip(*dense_q)]:
            raise Violation("query-differs-from-content", "route %d "
                            "(layout %r) answers %r, content is %r" %
                            (k, lays[k], {x: q_[x] for x in
                                          ("cells", "obs_data", "samp_data")},
                             dense_q))

        want_nz = sorted((o, s_) for a, o in enumerate(spec["obs"])
                         for b, s_ in enumerate(spec["samp"])
                         if dense_q[a][b] != 0)
        if q_["nonzero"] != want_nz:
            raise Violation("query-differs-from-content", "route %d (layout "
                            "%r): nonzero() lists %r, the non-zero cells are "
                            "%r" % (k, lays[k], q_["nonzero"], want_nz))
        for key in q_:
            if q_[key] != fq[0][key]:
                raise Violation("queries-differ", "fresh routes 0,%d (layouts"
                                " %r, %r) answer %s differently: %r vs %r" %
                                (k, lays[0], lays[k], key, fq[0][key],
                                 q_[key]))

    # exports of fresh builds, written in whatever layout the route's
    # history left behind (== would re-lay-out the table first)
    fx = [_exports(_build_route(spec, r)) for r in case["routes"]]
    for k in range(1, len(fx)):
        for fmt in fx[0]:
            if fx[0][fmt] != fx[k][fmt]:
                raise Violation("export-differs:" + fmt, "fresh routes 0,%d "
                                "(layouts %r): %r vs %r" %
                                (k, [lays[0], lays[k]], fx[0][fmt],
                                 fx[k][fmt]))
    h5 = fx[0]["hdf5"]
    if h5.get("csr_dense") != dense_q or h5.get("csc_dense") != dense_q or \
            h5["observation"]["ids"] != spec["obs"] or \
            h5["sample"]["ids"] != spec["samp"]:
        raise Violation("export-differs-from-content", "HDF5 export of "
                        "route 0 (layout %r) decodes to %r / %r, content %r" %
                        (lays[0], h5.get("csr_dense"), h5.get("csc_dense"),
                         dense_q))

    # pairwise equality, before and after interleaved accessors
    pairs = [(i, j) for i in range(len(tabs)) for j in range(len(tabs))
             if i < j]
    for i, j in pairs:
        v = _verdicts(tabs[i], tabs[j])
        if v != EQUAL:
            raise Violation("equal-content-unequal", "routes %d,%d: %r; "
                            "layouts %r" % (i, j, v, [lays[i], lays[j]]))
    for op in case["access"]:
        ops.apply_op(tabs[0], op)
        rec.cls("access:" + op["op"])
        for i, j in pairs:
            v = _verdicts(tabs[i], tabs[j])
            if v != EQUAL:
                raise Violation("verdict-flips-after-accessor",
                                "after %r routes %d,%d: %r" % (op, i, j, v))
    for t in tabs:
        if not (t == t) or (t != t):
            raise Violation("reflexive", "t != t")
        c = t.copy()
        if _verdicts(t, c) != EQUAL:
            raise Violation("copy-equals-original", repr(_verdicts(t, c)))
    if len(tabs) == 3:
        if (tabs[0] == tabs[1]) and (tabs[1] == tabs[2]) and \
                not (tabs[0] == tabs[2]):
            raise Violation("transitive", "a==b, b==c, a!=c")

    # equal tables export the same content and answer queries identically
    ex = [_exports(t) for t in tabs]
    qs = [_queries(t, case.get("kind") != "wild") for t in tabs]
    for k in range(1, len(tabs)):
        for fmt in ex[0]:
            if ex[0][fmt] != ex[k][fmt]:
                raise Violation("export-differs:" + fmt,
                                "routes 0,%d: %r vs %r" %
                                (k, ex[0][fmt], ex[k][fmt]))
        if qs[0] != qs[k]:
            raise Violation("queries-differ", "routes 0,%d: %r vs %r" %
                            (k, qs[0], qs[k]))

    # a single difference makes tables unequal, both directions
    d = case.get("diff")
    if d:
        s2 = _mutate(spec, d)
        if s2 is None:
            rec.skip("diff-not-applicable")
            return
        rec.cls("diff:" + d["kind"])
        rec.nt()
        route_b = dict(case["routes"][-1])
        # "subsample at full depth" is content preserving only for the
        # integer content / vector totals it was drawn for
        route_b["history"] = [o for o in route_b["history"]
                              if o["op"] != "subsample_full"]
        route_b["halved"] = None   # exact only for the original content
        if route_b["form"] in gen.FORMS_F32:
            # single precision cannot hold e.g. a one-ulp difference
            route_b["form"] = "csr"
        if s2.get("type") is not None:
            # transpose() does not carry the table type, so the
            # "transpose twice" route is content preserving only when untyped
            route_b["history"] = [o for o in route_b["history"]
                                  if o["op"] != "transpose2"]
        b = _build_route(s2, route_b)
        a = tabs[0]
        v = _verdicts(a, b)
        if v["a==b"] or v["b==a"] or not v["a!=b"] or not v["b!=a"] or \
                v["desc_ab"] == "Tables appear equal" or \
                v["desc_ba"] == "Tables appear equal":
            raise Violation("single-difference-equal",
                            "diff %r: %r" % (d, v))


REGRESSIONS = [
    # stored zeros vs none: equality must not depend on stored-entry count
    {"spec": {"obs": ["o0", "o1"], "samp": ["s0", "s1"],
              "rows": [[1.0, 0.0], [0.0, 2.0]], "obs_md": None,
              "samp_md": None, "type": None},
     "routes": [{"form": "dense", "md_none": "none", "history": []},
                {"form": "csr_zeros", "md_none": "none", "history": []}],
     "access": [{"op": "nnz"}], "diff": None, "kind": "int"},
]


def _long_order_twin(n):
    """Single-difference pair on a long axis: two IDs (with their vectors)
    swapped.  Shortcuts for long ID lists must still see the order."""
    obs = ["o%d" % i for i in range(n)]
    spec = {"obs": obs, "samp": ["s0", "s1"],
            # (identical vectors: only the order of the IDs differs)
            "rows": [[1.0, 2.0] for i in range(n)],
            "obs_md": None, "samp_md": None, "type": None}
    return {"spec": spec, "kind": "int",
            "routes": [{"form": "dense", "md_none": "none", "history": []},
                       {"form": "csr", "md_none": "none", "history": []}],
            "access": [], "diff": {"kind": "order", "axis": "observation",
                                   "i": 3, "j": 5, "to": 0.0}}


REGRESSIONS += [_long_order_twin(120), _long_order_twin(300)]
