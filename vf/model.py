"""Dense pure-Python reference model of a table (no scipy, no biom)."""
from copy import deepcopy


class Ref:
    def __init__(self, obs, samp, rows, obs_md=None, samp_md=None, type=None):
        self.obs = list(obs)
        self.samp = list(samp)
        self.rows = [list(map(float, r)) for r in rows]
        self.obs_md = deepcopy(obs_md)
        self.samp_md = deepcopy(samp_md)
        self.type = type

    @classmethod
    def from_snapshot(cls, s):
        return cls(s["obs"], s["samp"], s["rows"], s["obs_md"], s["samp_md"],
                   s.get("type"))

    def copy(self):
        return Ref(self.obs, self.samp, self.rows, self.obs_md, self.samp_md,
                   self.type)

    # -- access
    def ids(self, axis):
        return self.obs if axis == "observation" else self.samp

    def md(self, axis):
        return self.obs_md if axis == "observation" else self.samp_md

    def vec(self, axis, i):
        if axis == "observation":
            return list(self.rows[i])
        return [r[i] for r in self.rows]

    def vectors(self, axis):
        return [self.vec(axis, i) for i in range(len(self.ids(axis)))]

    def cell(self, o, s):
        return self.rows[self.obs.index(o)][self.samp.index(s)]

    def md_of(self, axis, i):
        m = self.md(axis)
        return None if m is None else m[i]

    # -- operations (each returns a new Ref)
    def take(self, axis, idx):
        """Keep positions `idx` (in the given order) on `axis`."""
        r = self.copy()
        if axis == "observation":
            r.obs = [self.obs[i] for i in idx]
            r.rows = [list(self.rows[i]) for i in idx]
            if self.obs_md is not None:
                r.obs_md = [deepcopy(self.obs_md[i]) for i in idx]
        else:
            r.samp = [self.samp[i] for i in idx]
            r.rows = [[row[i] for i in idx] for row in self.rows]
            if self.samp_md is not None:
                r.samp_md = [deepcopy(self.samp_md[i]) for i in idx]
        return r

    def filter_ids(self, axis, keep, invert=False):
        keep = set(keep)
        ids = self.ids(axis)
        idx = [i for i, x in enumerate(ids) if (x in keep) != bool(invert)]
        return self.take(axis, idx)

    def nonempty_idx(self, axis):
        return [i for i, v in enumerate(self.vectors(axis))
                if any(x != 0 for x in v)]

    def remove_empty(self, axis):
        r = self
        axes = ["sample", "observation"] if axis == "whole" else [axis]
        for a in axes:
            r = r.take(a, r.nonempty_idx(a))
        return r

    def sort_order(self, order, axis):
        ids = self.ids(axis)
        pos = {x: i for i, x in enumerate(ids)}
        return self.take(axis, [pos[x] for x in order])

    def transpose(self):
        return Ref(self.samp, self.obs,
                   [[self.rows[i][j] for i in range(len(self.obs))]
                    for j in range(len(self.samp))],
                   self.samp_md, self.obs_md, self.type)

    def as_dict(self):
        return {"obs": self.obs, "samp": self.samp, "rows": self.rows,
                "obs_md": self.obs_md, "samp_md": self.samp_md}


def agree(snap, ref, what="result", check_md=True):
    """Return None when the snapshot equals the model, else a description."""
    from .observe import md_equal
    if snap["obs"] != ref.obs:
        return "%s observation ids %r != expected %r" % (what, snap["obs"],
                                                        ref.obs)
    if snap["samp"] != ref.samp:
        return "%s sample ids %r != expected %r" % (what, snap["samp"],
                                                   ref.samp)
    if ref.obs and ref.samp:
        if snap["rows"] != ref.rows:
            return "%s values %r != expected %r" % (what, snap["rows"],
                                                   ref.rows)
    if check_md:
        if not md_equal(snap["obs_md"], ref.obs_md):
            return "%s observation metadata %r != expected %r" % (
                what, snap["obs_md"], ref.obs_md)
        if not md_equal(snap["samp_md"], ref.samp_md):
            return "%s sample metadata %r != expected %r" % (
                what, snap["samp_md"], ref.samp_md)
    return None
