"""Runner: ``python -m vf.check <ID> --tier quick|thorough [--replay P]``.

exit 0  property held on everything explored (KNOWN-FINDING lines allowed)
exit 1  + ``VIOLATION property=<id> replay=<path>``
exit 2  harness error (never printed as VIOLATION)
"""
import argparse
import glob
import importlib
import json
import os
import sys
import time
import traceback


def _reexec_if_needed():
    # (LC_ALL=C with Python's default locale coercion, i.e. text files
    # opened without an explicit encoding are still UTF-8: a true ASCII
    # locale is outside what the properties quantify over - see DESIGN 9)
    want = {"PYTHONHASHSEED": "0", "LC_ALL": "C", "LANG": "C",
            "OMP_NUM_THREADS": "1", "OPENBLAS_NUM_THREADS": "1",
            "MKL_NUM_THREADS": "1", "PYTHONDONTWRITEBYTECODE": "1"}
    if any(os.environ.get(k) != v for k, v in want.items()):
        env = dict(os.environ)
        env.update(want)
        os.execve(sys.executable, [sys.executable, "-m", "vf.check"] +
                  sys.argv[1:], env)


def main(argv=None):
    _reexec_if_needed()
    from . import core
    sys.path.insert(0, core.REPO)
    deps = os.path.join(core.VERIF_DIR, ".deps")
    if os.path.isdir(deps):
        sys.path.append(deps)

    ap = argparse.ArgumentParser()
    ap.add_argument("prop")
    ap.add_argument("--tier", default=os.environ.get("VERIF_TIER", "quick"),
                    choices=["quick", "thorough"])
    ap.add_argument("--replay")
    ap.add_argument("--shards", type=int)
    ap.add_argument("--examples", type=int)
    ap.add_argument("--no-enum", action="store_true")
    ap.add_argument("--no-fuzz", action="store_true")
    args = ap.parse_args(argv)
    prop = args.prop.upper()
    try:
        seed = int(os.environ.get("VERIF_SEED", "1"))
    except ValueError:
        seed = 1

    t0 = time.time()
    try:
        import biom  # noqa: F401  (must come from the working tree)
        if not os.path.abspath(biom.__file__).startswith(
                os.path.abspath(core.REPO)):
            raise core.HarnessError("biom imported from %s, not %s" %
                                    (biom.__file__, core.REPO))
        mod = importlib.import_module("vf.props.%s" % prop.lower())
    except Exception:
        traceback.print_exc()
        print("HARNESS-ERROR property=%s import failed" % prop)
        return 2

    known_all, _fixed = core.load_known_findings()
    known = known_all.get(prop, {})
    known_keys = sorted(known)

    if args.replay:
        return _replay(core, mod, prop, args.replay, known_keys)

    rec = core.Recorder()
    fail = None
    error = None
    subruns = []

    # 1. pinned regression cases (bypass Hypothesis)
    reg_cases = list(getattr(mod, "REGRESSIONS", []))
    for p in sorted(glob.glob(os.path.join(core.VERIF_DIR, "regress",
                                           "%s-*.json" % prop))):
        with open(p, encoding="utf8") as f:
            d = json.load(f)
        reg_cases.append(d["case"] if "case" in d else d)
    n_reg, fail, error = core.run_cases_isolated(mod, reg_cases, rec,
                                                 known_keys)
    subruns.append({"name": "pinned regression cases", "cases": n_reg,
                    "exhaustive": False})

    # 2. exhaustive sub-domain
    if fail is None and error is None and hasattr(mod, "enum_chunks") \
            and not args.no_enum:
        n, fail, error = core.run_enumeration(mod, args.tier, rec, known_keys)
        subruns.append({"name": getattr(mod, "ENUM_NAME", "enumeration")
                        if not callable(getattr(mod, "ENUM_NAME", None))
                        else mod.ENUM_NAME(args.tier),
                        "cases": n, "exhaustive": fail is None and
                        error is None})

    # 3. seeded Hypothesis campaigns
    if fail is None and error is None and hasattr(mod, "strategy"):
        b = dict(mod.BUDGET[args.tier])
        if args.shards:
            b["shards"] = args.shards
        if args.examples:
            b["examples"] = args.examples
        before = rec.evaluations
        fail, error = core.run_hypothesis(
            mod, args.tier, seed, rec, known_keys, b["shards"], b["examples"],
            shrink_s=b.get("shrink_s", 25 if args.tier == "quick" else 120))
        subruns.append({"name": "hypothesis %d shards x %d examples" %
                        (b["shards"], b["examples"]),
                        "cases": rec.evaluations - before,
                        "exhaustive": False})

    # 4. extra engines (atheris etc.), thorough only, never decide alone
    engines = ["hypothesis %s" % importlib.import_module(
        "hypothesis").__version__]
    if fail is None and error is None and args.tier == "thorough" \
            and getattr(mod, "FUZZ_SECONDS", 0) and not args.no_fuzz:
        try:
            before = rec.evaluations
            fail, note = core.run_atheris(mod, args.tier, seed, rec,
                                          mod.FUZZ_SECONDS)
            engines.append(note)
            subruns.append({"name": "atheris coverage-guided campaign",
                            "cases": rec.evaluations - before,
                            "exhaustive": False})
        except Exception as e:  # engine unavailable is not a violation
            engines.append("extra engine unavailable: %r" % (e,))

    if error is not None:
        sys.stdout.write(error + "\n")
        print("HARNESS-ERROR property=%s" % prop)
        return 2

    # 5. listed known findings: re-run the pinned reproducer
    kf_lines = []
    for key in known_keys:
        repro, text = known[key]
        still = None
        if repro:
            try:
                with open(os.path.join(core.VERIF_DIR, repro),
                          encoding="utf8") as f:
                    d = json.load(f)
                case = d["case"] if "case" in d else d
                try:
                    mod.check(case, core.Recorder())
                    still = False
                except core.Violation as v:
                    still = core.classify(mod, case, v, [key]) == key
            except Exception:
                still = None
        if still or (still is None and rec.known_hits.get(key)):
            kf_lines.append("KNOWN-FINDING: property=%s %s (key=%s, hits=%d)"
                            % (prop, text, key, rec.known_hits.get(key, 0)))

    wall = time.time() - t0
    coverage = {
        "evaluations": rec.evaluations,
        "distinct_nontrivial": len(rec.nontrivial),
        "rule": mod.RULE,
        "samples": rec.samples if rec.samples else
        ([fail[0]] if fail else []),
        "classes": dict(sorted(rec.classes.items())),
        "skipped": dict(rec.skipped),
        "known_finding_hits": dict(rec.known_hits),
        "subruns": subruns,
        "engines": engines,
        "exhaustive": False,
    }
    core.write_evidence(prop, args.tier, seed, getattr(mod, "LEVEL",
                                                       "exploration"),
                        coverage, list(getattr(mod, "ASSUMPTIONS", [])),
                        wall, 1 if fail else 0)
    for line in kf_lines:
        print(line)
    if fail:
        case, sub, msg = fail
        path = core.write_replay(prop, case, sub, msg)
        print("failed sub-check: %s" % sub)
        print("detail: %s" % msg[:2000])
        print("VIOLATION property=%s replay=%s" % (prop, path))
        return 1
    print("OK property=%s tier=%s seed=%d evaluations=%d nontrivial=%d "
          "wall=%.1fs" % (prop, args.tier, seed, rec.evaluations,
                          len(rec.nontrivial), wall))
    return 0


def _replay(core, mod, prop, path, known_keys):
    if not os.path.isabs(path):
        path = os.path.join(core.VERIF_DIR, path)
    with open(path, encoding="utf8") as f:
        d = json.load(f)
    case = d["case"] if "case" in d else d
    rec = core.Recorder()
    # (in a child process: a replayed crash must not take the runner down)
    n, fail, error = core.run_cases_isolated(mod, [case], rec, known_keys, 1)
    if fail is not None:
        print("failed sub-check: %s" % fail[1])
        print("detail: %s" % fail[2][:4000])
        print("VIOLATION property=%s replay=%s" % (prop, os.path.relpath(
            path, core.VERIF_DIR)))
        return 1
    if error is not None:
        sys.stdout.write(error + "\n")
        print("HARNESS-ERROR property=%s" % prop)
        return 2
    print("OK property=%s replay passes" % prop)
    return 0


if __name__ == "__main__":
    sys.exit(main())
