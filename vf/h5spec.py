"""Independent BIOM 2.1 decoder written against
doc/documentation/format_versions/biom-2.1.rst using raw h5py + numpy only.
Nothing from biom is imported here.

decode(f) returns a plain dict; conformance problems are collected in
`problems` (list of strings) instead of raising, so a caller can report all of
them.  The offset arrays are interpreted with the CSR/CSC meaning: the
compressed-row offsets of an N-observation matrix have N+1 entries (the rst
prints (M+1,) for observation/ and (N+1,) for sample/, which is a slip: such
arrays could not index N rows)."""
import numpy as np
import h5py

REQ_ATTRS = ["id", "type", "format-url", "format-version", "generated-by",
             "creation-date", "shape", "nnz"]
REQ_GROUPS = ["observation", "observation/matrix", "observation/metadata",
              "observation/group-metadata", "sample", "sample/matrix",
              "sample/metadata", "sample/group-metadata"]
REQ_DATASETS = ["observation/ids", "observation/matrix/data",
                "observation/matrix/indices", "observation/matrix/indptr",
                "sample/ids", "sample/matrix/data", "sample/matrix/indices",
                "sample/matrix/indptr"]
LIST_CATEGORIES = {"taxonomy", "KEGG_Pathways", "collapsed_ids"}


def _text(v):
    if isinstance(v, (bytes, np.bytes_)):
        try:
            return bytes(v).decode("utf8")
        except UnicodeDecodeError:
            return None
    if isinstance(v, (str, np.str_)):
        return str(v)
    return None


def _decode_matrix(grp, major, minor, name, problems):
    """Decode a compressed matrix whose major axis has `major` vectors."""
    data = grp["data"][()]
    indices = grp["indices"][()]
    indptr = grp["indptr"][()]
    if grp["data"].dtype != np.float64:
        problems.append("%s/data dtype %s, expected float64" %
                        (name, grp["data"].dtype))
    for k in ("indices", "indptr"):
        if grp[k].dtype != np.int32:
            problems.append("%s/%s dtype %s, expected int32" %
                            (name, k, grp[k].dtype))
    dense = [[0.0] * minor for _ in range(major)]
    ok = True
    if len(indptr) != major + 1:
        problems.append("%s/indptr has %d entries, expected %d" %
                        (name, len(indptr), major + 1))
        ok = False
    if len(data) != len(indices):
        problems.append("%s: len(data)=%d != len(indices)=%d" %
                        (name, len(data), len(indices)))
        ok = False
    if len(indptr) and indptr[0] != 0:
        problems.append("%s/indptr does not start at 0" % name)
        ok = False
    if np.any(np.diff(indptr.astype(np.int64)) < 0):
        problems.append("%s/indptr is not monotone" % name)
        ok = False
    if len(indptr) and indptr[-1] != len(data):
        problems.append("%s/indptr ends at %d, data has %d entries" %
                        (name, indptr[-1], len(data)))
        ok = False
    if len(indices) and (indices.min() < 0 or indices.max() >= minor):
        problems.append("%s/indices out of range [0,%d)" % (name, minor))
        ok = False
    if np.any(data == 0):
        problems.append("%s stores %d explicit zero(s)" %
                        (name, int(np.sum(data == 0))))
    if ok:
        for i in range(major):
            seen = set()
            for p in range(int(indptr[i]), int(indptr[i + 1])):
                j = int(indices[p])
                if j in seen:
                    problems.append("%s: duplicate entry (%d,%d)" %
                                    (name, i, j))
                seen.add(j)
                dense[i][j] += float(data[p])
    return {"dense": dense, "nstored": int(len(data)), "ok": ok}


def _decode_axis(f, axis, n, problems):
    out = {"ids": None, "metadata": {}, "group_metadata": {}}
    g = f[axis]
    if "ids" in g:
        ds = g["ids"]
        if ds.shape != (n,):
            problems.append("%s/ids shape %s, expected (%d,)" %
                            (axis, ds.shape, n))
        raw = ds[()]
        ids = []
        for v in raw:
            t = _text(v)
            if t is None:
                problems.append("%s/ids holds a non-string %r" % (axis, v))
                t = repr(v)
            ids.append(t)
        out["ids"] = ids
        if n > 0:
            sd = h5py.check_string_dtype(ds.dtype)
            if sd is None:
                problems.append("%s/ids dtype %s is not a string type" %
                                (axis, ds.dtype))
    if "metadata" in g and isinstance(g["metadata"], h5py.Group):
        for cat, ds in g["metadata"].items():
            if not isinstance(ds, h5py.Dataset):
                problems.append("%s/metadata/%s is not a dataset" %
                                (axis, cat))
                continue
            if len(ds.shape) < 1 or ds.shape[0] != n:
                problems.append("%s/metadata/%s shape %s, expected %d rows" %
                                (axis, cat, ds.shape, n))
            vals = ds[()]
            col = []
            for row in vals:
                if isinstance(row, np.ndarray):
                    col.append([_text(x) if _text(x) is not None else x
                                for x in row.tolist()])
                else:
                    tx = _text(row)
                    if tx is not None:
                        col.append(tx)
                    elif isinstance(row, np.generic):
                        col.append(row.item())
                    else:
                        col.append(row)
            out["metadata"][cat] = col
    if "group-metadata" in g and isinstance(g["group-metadata"], h5py.Group):
        for key, ds in g["group-metadata"].items():
            v = ds[()]
            v0 = v[0] if isinstance(v, np.ndarray) and v.shape else v
            out["group_metadata"][key] = {
                "value": _text(v0),
                "data_type": _text(ds.attrs.get("data_type"))
                if "data_type" in ds.attrs else None}
    return out


def decode(f):
    problems = []
    out = {"problems": problems, "attrs": {}}
    for a in REQ_ATTRS:
        if a not in f.attrs:
            problems.append("missing attribute %r" % a)
    for g in REQ_GROUPS:
        if g not in f or not isinstance(f[g], h5py.Group):
            problems.append("missing group %r" % g)
    for d in REQ_DATASETS:
        if d not in f or not isinstance(f[d], h5py.Dataset):
            problems.append("missing dataset %r" % d)
    if problems:
        return out
    at = out["attrs"]
    for a in ("id", "type", "format-url", "generated-by", "creation-date"):
        v = f.attrs[a]
        t = _text(v)
        if t is None:
            problems.append("attribute %r is not a string: %r" % (a, v))
        at[a] = t
    fv = np.asarray(f.attrs["format-version"])
    if fv.shape != (2,) or not np.issubdtype(fv.dtype, np.integer):
        problems.append("format-version is not a pair of ints: %r" % (fv,))
    at["format-version"] = tuple(int(x) for x in fv.tolist()) \
        if fv.ndim == 1 else None
    sh = np.asarray(f.attrs["shape"])
    if sh.shape != (2,) or not np.issubdtype(sh.dtype, np.integer):
        problems.append("shape is not a pair of ints: %r" % (sh,))
        return out
    n, m = int(sh[0]), int(sh[1])
    at["shape"] = (n, m)
    nnz = f.attrs["nnz"]
    if not np.issubdtype(np.asarray(nnz).dtype, np.integer):
        problems.append("nnz is not an int: %r" % (nnz,))
    at["nnz"] = int(nnz)

    out["observation"] = _decode_axis(f, "observation", n, problems)
    out["sample"] = _decode_axis(f, "sample", m, problems)
    csr = _decode_matrix(f["observation/matrix"], n, m, "observation/matrix",
                         problems)
    csc = _decode_matrix(f["sample/matrix"], m, n, "sample/matrix", problems)
    out["csr_dense"] = csr["dense"]
    # transpose the column-major decode into row-major
    out["csc_dense"] = [[csc["dense"][j][i] for j in range(m)]
                        for i in range(n)]
    out["csr_ok"], out["csc_ok"] = csr["ok"], csc["ok"]
    for name, dec in (("observation/matrix", csr), ("sample/matrix", csc)):
        if dec["nstored"] != at["nnz"]:
            problems.append("%s stores %d entries, nnz attribute is %d" %
                            (name, dec["nstored"], at["nnz"]))
    return out


def mem_file():
    """A fresh in-memory HDF5 file (nothing touches the disk)."""
    import uuid
    return h5py.File("vf-%s.h5" % uuid.uuid4().hex, "w", driver="core",
                     backing_store=False)
