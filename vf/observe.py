"""Non-mutating observation of a Table through its public API."""
from copy import deepcopy

import numpy as np


def plain(x):
    """numpy -> Python, tuple -> list, mapping -> dict (recursively)."""
    # numpy scalars first: np.float64 *is* a float and np.str_ a str, but
    # they compare by numpy's rules (np.float64(2.0**53) == 2**53 + 1)
    if isinstance(x, np.bool_):
        return bool(x)
    if isinstance(x, np.integer):
        return int(x)
    if isinstance(x, np.floating):
        return float(x)
    if isinstance(x, np.str_):
        return str(x)
    if x is None or isinstance(x, (str, bool, int, float)):
        return x
    if isinstance(x, bytes):
        return x.decode("utf8")
    if isinstance(x, np.ndarray):
        return [plain(v) for v in x.tolist()]
    if isinstance(x, dict):
        return {str(k): plain(v) for k, v in x.items()}
    if isinstance(x, (list, tuple)):
        return [plain(v) for v in x]
    return x


def md_list(t, axis):
    md = t.metadata(axis=axis)
    if md is None:
        return None
    return [plain(m) if m is not None else None for m in md]


def kinds(x):
    """The container skeleton of a metadata value: which parts are tuples,
    lists, mappings (plain() maps tuples to lists so that cases stay JSON;
    a tuple that comes back as a list is still a changed value)."""
    if isinstance(x, dict):
        return {str(k): kinds(v) for k, v in x.items()}
    if isinstance(x, tuple):
        return ["tuple"] + [kinds(v) for v in x]
    if isinstance(x, list):
        return ["list"] + [kinds(v) for v in x]
    if isinstance(x, np.ndarray):
        return ["ndarray"]
    return "-"


def md_kinds(t, axis):
    md = t.metadata(axis=axis)
    if md is None:
        return None
    return [kinds(m) if m is not None else None for m in md]


def _gmd(t, axis):
    g = t.group_metadata(axis=axis)
    if not g:
        return None
    return {str(k): plain(v) for k, v in sorted(g.items())}


def snapshot(t, copy=True):
    """Deep snapshot of observable content.  Reads a deep copy so that the
    original's internal layout is left exactly as it was."""
    c = deepcopy(t) if copy else t
    dense = np.asarray(c.matrix_data.toarray(), dtype=float)
    return {
        "obs": [str(i) for i in c.ids(axis="observation")],
        "samp": [str(i) for i in c.ids(axis="sample")],
        "rows": dense.tolist(),
        "shape": list(dense.shape),
        "obs_md": md_list(c, "observation"),
        "samp_md": md_list(c, "sample"),
        "obs_mdk": md_kinds(c, "observation"),
        "samp_mdk": md_kinds(c, "sample"),
        "type": c.type,
        "table_id": c.table_id,
        "obs_gmd": _gmd(c, "observation"),
        "samp_gmd": _gmd(c, "sample"),
    }


def layout(t):
    """Layout features of the live object (public attributes of the scipy
    matrix only); never raises."""
    out = {}
    try:
        m = t.matrix_data
        out["format"] = m.format
        if m.format in ("csr", "csc"):
            # has_sorted_indices caches; compute on a shallow structural copy
            ind, ptr = m.indices, m.indptr
            srt = True
            for i in range(len(ptr) - 1):
                seg = ind[ptr[i]:ptr[i + 1]]
                if len(seg) > 1 and np.any(seg[1:] <= seg[:-1]):
                    srt = False
                    break
            out["sorted"] = srt
            out["stored_zeros"] = int(np.sum(m.data == 0))
        else:
            out["sorted"] = True
            out["stored_zeros"] = int(np.sum(np.asarray(
                m.tocoo().data) == 0))
    except Exception:
        pass
    return out


def md_equal(a, b):
    """Metadata lists equal after normalisation; None == all-None/empty."""
    return norm_md(a) == norm_md(b)


def norm_md(md):
    if md is None:
        return None
    out = [dict(m) if m else {} for m in md]
    if all(not m for m in out):
        return None
    return out


def all_finite(snap):
    return all(v == v and v not in (float("inf"), float("-inf"))
               for row in snap["rows"] for v in row)


def check_lookups(t, snap=None, what="result"):
    """ID-based access must describe the same table as positional access:
    index()/exists() give each ID its position and data(id)/
    get_value_by_ids() return that ID's own vector / cell.  Raises
    Violation."""
    from .core import Violation
    snap = snap or snapshot(t)
    if not snap["obs"] or not snap["samp"]:
        return
    rows = snap["rows"]
    if len(rows) != len(snap["obs"]) or \
            any(len(r) != len(snap["samp"]) for r in rows):
        raise Violation("lookup-inconsistent", "%s: the matrix is %d x %s "
                        "but the table lists %d observation and %d sample "
                        "IDs" % (what, len(rows),
                                 sorted({len(r) for r in rows}),
                                 len(snap["obs"]), len(snap["samp"])))

    def cells():
        for a, o in enumerate(snap["obs"]):
            for b, s_ in enumerate(snap["samp"]):
                got = float(t.get_value_by_ids(o, s_))
                if got != rows[a][b]:
                    raise Violation("lookup-inconsistent", "%s: get_value_by"
                                    "_ids(%r, %r) = %r, matrix says %r" %
                                    (what, o, s_, got, rows[a][b]))
    # per-cell reads come first for half of the shapes: vector reads may
    # re-lay-out the matrix and hide what a scalar read would have seen
    cells_first = (len(snap["obs"]) + len(snap["samp"])) % 2 == 0
    if cells_first:
        cells()
    for axis, key in (("observation", "obs"), ("sample", "samp")):
        for k, i in enumerate(snap[key]):
            if not t.exists(i, axis=axis):
                raise Violation("lookup-inconsistent", "%s: %s id %r is "
                                "listed by ids() but exists() is False" %
                                (what, axis, i))
            if t.index(i, axis) != k:
                raise Violation("lookup-inconsistent", "%s: index(%r, %s) = "
                                "%r, its position is %d" %
                                (what, i, axis, t.index(i, axis), k))
            want = rows[k] if axis == "observation" else \
                [r[k] for r in rows]
            got = t.data(i, axis=axis).tolist()
            if got != want:
                raise Violation("lookup-inconsistent", "%s: data(%r, %s) = "
                                "%r, the vector of that id is %r" %
                                (what, i, axis, got, want))
    if not cells_first:
        cells()


def check_live_iteration(t, snap=None, what="result"):
    """A walk over one axis that is still in progress while the same table
    answers other read-only questions (a vector of the other axis, a
    comparison, a non-zero count) yields every ID with its own vector, like
    a walk that is left alone.  Raises Violation."""
    from .core import Violation
    snap = snap or snapshot(t)
    if not snap["obs"] or not snap["samp"]:
        return
    rows = snap["rows"]
    twin = t.copy()
    for axis, key, okey in (("sample", "samp", "obs"),
                            ("observation", "obs", "samp")):
        other = "observation" if axis == "sample" else "sample"
        for dense in (True, False):
            k = 0
            for vals, id_, md in t.iter(axis=axis, dense=dense):
                v = vals if dense else np.asarray(vals.toarray()).ravel()
                want = [r[k] for r in rows] if axis == "sample" else rows[k]
                if str(id_) != snap[key][k] or np.asarray(v).tolist() != want:
                    raise Violation(
                        "live-iteration", "%s: iter(axis=%r, dense=%r) step "
                        "%d yields %r: %r while the table answers other "
                        "reads; that position holds %r: %r" %
                        (what, axis, dense, k, str(id_),
                         np.asarray(v).tolist(), snap[key][k], want))
                # reads between two steps of the walk
                q = k % 3
                if q == 0:
                    t.data(snap[okey][k % len(snap[okey])], axis=other)
                elif q == 1:
                    t == twin
                else:
                    for _ in t.iter(axis=other):
                        break
                k += 1
            if k != len(snap[key]):
                raise Violation("live-iteration", "%s: iter(axis=%r) yielded "
                                "%d of %d vectors" % (what, axis, k,
                                                      len(snap[key])))


def same_data(a, b):
    """Equality of plain (JSON-like) data in which true, 1 and 1.0 are three
    different values, as they are in a JSON text."""
    if isinstance(a, dict) and isinstance(b, dict):
        return set(a) == set(b) and all(same_data(a[k], b[k]) for k in a)
    if isinstance(a, (list, tuple)) and isinstance(b, (list, tuple)):
        return len(a) == len(b) and all(same_data(x, y)
                                        for x, y in zip(a, b))
    if type(a) is not type(b):
        return False
    return a == b
