"""The full public operation alphabet as plain data (used by C05 and C07).

`op_strategy()` draws an abstract operation whose arguments are valid for a
table of *any* shape (indices are taken modulo the current axis length, masks
are tiled), so a list of operations is a replayable history.
`apply(t, op)` performs it with the real API and returns an `Outcome`.
"""
import numpy as np
from hypothesis import strategies as st

from . import ops as hops

AX = hops.AX
KEY = hops.KEY
MASK = hops.MASK

TRANSFORMS = ["double", "square", "neg", "plus1", "div_sum", "minus_min",
              "zero_all", "zero_first", "mutate_arg", "by_id_len", "md_probe",
              "md_probe"]
RANKS = ["average", "min", "max", "dense", "ordinal"]
LABELLERS = ["id_mod2", "id_mod3", "md_k", "const", "injective", "none_some"]


def other_recipe():
    return st.fixed_dictionaries({
        "obs_mask": MASK, "samp_mask": MASK, "key_o": KEY, "key_s": KEY,
        "extra_o": st.integers(0, 2), "extra_s": st.integers(0, 2),
        "md": st.booleans(), "vseed": st.integers(0, 50)})


def op_strategy(counts=False):
    flt = st.builds(lambda a, m, inv, ip, h: {"op": "filter", "axis": a,
                                              "mask": m, "invert": inv,
                                              "inplace": ip, "how": h},
                    AX, MASK, st.booleans(), st.booleans(),
                    st.sampled_from(["ids", "pred", "pred_value",
                                     "pred_value"]))
    # (filter is the operation with the most paths: drawn three times as
    # often as the others)
    s = [
        flt, flt, flt,
        st.builds(lambda a, ip: {"op": "drop_all", "axis": a, "inplace": ip},
                  AX, st.booleans()),
        st.builds(lambda a, ip: {"op": "remove_empty", "axis": a,
                                 "inplace": ip},
                  st.sampled_from(["whole", "sample", "observation"]),
                  st.booleans()),
        st.builds(lambda n, m: {"op": "head", "n": n, "m": m},
                  st.integers(1, 6), st.integers(1, 6)),
        st.builds(lambda a, f: {"op": "sort", "axis": a, "f": f}, AX,
                  st.sampled_from(["default", "reverse", "bylen"])),
        st.builds(lambda a, k: {"op": "sort_order", "axis": a, "key": k},
                  AX, KEY),
        st.just({"op": "transpose"}),
        st.just({"op": "copy"}),
        st.builds(lambda a, sty, s_, ip, m: {"op": "update_ids", "axis": a,
                                             "style": sty, "strict": s_,
                                             "inplace": ip, "mask": m},
                  AX, st.sampled_from(["lengthen", "shorten", "suffix",
                                       "swap", "lengthen", "shorten",
                                       "suffix", "swap", "collide",
                                       "collide_onto"]),
                  st.booleans(), st.booleans(), MASK),
        st.builds(lambda a, m, k: {"op": "add_metadata", "axis": a, "mask": m,
                                   "key": k, "unknown": True},
                  AX, MASK, st.sampled_from(["k", "grp", "new"])),
        st.builds(lambda a, ks: {"op": "del_metadata", "axis": a, "keys": ks},
                  st.sampled_from(["whole", "sample", "observation"]),
                  st.one_of(st.none(), st.lists(st.sampled_from(
                      ["k", "grp", "new", "taxonomy", "n", "x/y", "absent"]),
                      max_size=3))),
        st.builds(lambda a, f, ip: {"op": "transform", "axis": a, "fn": f,
                                    "inplace": ip},
                  AX, st.sampled_from(TRANSFORMS), st.booleans()),
        st.builds(lambda a, ip: {"op": "norm", "axis": a, "inplace": ip},
                  AX, st.booleans()),
        st.builds(lambda ip: {"op": "pa", "inplace": ip}, st.booleans()),
        st.builds(lambda a, m, ip: {"op": "rankdata", "axis": a, "method": m,
                                    "inplace": ip},
                  AX, st.sampled_from(RANKS), st.booleans()),
        st.builds(lambda a, n, b, w, s_: {"op": "subsample", "axis": a,
                                          "n": n, "by_id": b,
                                          "with_replacement": w and not b,
                                          "seed": s_},
                  AX, st.integers(1, 8), st.booleans(), st.booleans(),
                  st.integers(0, 2 ** 16)),
        st.builds(lambda a, f, nm, g, inc: {"op": "collapse", "axis": a,
                                            "f": f, "norm": nm,
                                            "min_group_size": g,
                                            "include_md": inc},
                  AX, st.sampled_from(LABELLERS[:-1]), st.booleans(),
                  st.integers(1, 2), st.booleans()),
        st.builds(lambda a, f, p, re, ig: {"op": "partition", "axis": a,
                                           "f": f, "pick": p,
                                           "remove_empty": re,
                                           "ignore_none": ig},
                  AX, st.sampled_from(LABELLERS), st.integers(0, 3),
                  st.booleans(), st.booleans()),
        st.builds(lambda o, s_, ob: {"op": "merge", "other": o, "sample": s_,
                                     "observation": ob},
                  other_recipe(), st.sampled_from(["union", "intersection"]),
                  st.sampled_from(["union", "intersection"])),
        st.builds(lambda o, a: {"op": "concat", "other": o, "axis": a},
                  other_recipe(), AX),
        st.builds(lambda o, a: {"op": "align_to", "other": o, "axis": a},
                  other_recipe(),
                  st.sampled_from(["sample", "observation", "both",
                                   "detect"])),
    ]
    # boolean flags are sometimes spelled as numpy booleans (the result of
    # any numpy comparison), which are true/false but not `True`/`False`
    # ... and arguments are sometimes passed positionally, in the documented
    # order of the signature
    return st.builds(lambda o, f, sty: dict(o, **dict(
        ([("npflag", True)] if f else []) +
        ([(sty, True)] if sty else []))),
        st.one_of(*s), st.sampled_from([False, False, True]),
        st.sampled_from([None, None, None, "positional", "positional",
                         "omit_defaults"]))


# ---------------------------------------------------------------------------

def _held(obj):
    """Snapshot of a caller-owned plain argument (list / dict of plain
    values); `_same_arg` raises if the library changed it."""
    import copy
    return copy.deepcopy(obj)


def _same_arg(what, obj, held):
    from .core import Violation
    if type(obj) is not type(held) or obj != held:
        raise Violation("argument-modified", "%s changed the %s it was "
                        "given: %r -> %r" % (what, type(held).__name__,
                                             held, obj))


def _call(method, args, kw, op, defaults):
    """Call `method(*args, **kw)` in the style the case asks for: keywords,
    positionally in the documented order (`kw` is written in that order), or
    leaving out every argument that equals its documented default."""
    if op.get("positional"):
        return method(*args, *kw.values())
    if op.get("omit_defaults"):
        kw = {k: v for k, v in kw.items()
              if not (k in defaults and type(v) is type(defaults[k]) and
                      v == defaults[k])}
    return method(*args, **kw)


class Outcome:
    """Result of applying one op."""
    def __init__(self, result=None, results=None, args=(), inplace=None,
                 skipped=None):
        self.result = result            # Table returned (or None)
        self.results = results if results is not None else (
            [result] if result is not None else [])
        self.args = list(args)          # argument tables
        self.inplace = inplace          # True/False for ops with the flag
        self.skipped = skipped          # reason the op is outside its domain


def transform_fn(name):
    if name == "double":
        return lambda v, i, md: v * 2
    if name == "square":
        return lambda v, i, md: v * v
    if name == "neg":
        return lambda v, i, md: -v
    if name == "plus1":
        return lambda v, i, md: v + 1
    if name == "div_sum":
        return lambda v, i, md: v / v.sum() if v.size and v.sum() else v
    if name == "minus_min":
        return lambda v, i, md: v - v.min() if v.size else v
    if name == "zero_all":
        return lambda v, i, md: v * 0
    if name == "zero_first":
        def f(v, i, md):
            w = v.copy()
            if w.size:
                w[0] = 0
            return w
        return f
    if name == "mutate_arg":
        def g(v, i, md):
            v *= 3
            return v
        return g
    if name == "md_probe":
        # reads a category no entry carries (a mapping that creates missing
        # keys on access must not be the receiver's own)
        def p(v, i, md):
            k = 2 if md is not None and md["category-nobody-has"] is None \
                else 3
            return v * k
        return p
    if name == "by_id_len":
        return lambda v, i, md: v * (len(i) + 1)
    raise ValueError(name)


def labeller(name):
    import zlib
    if name == "id_mod2":
        return lambda i, md: "g%d" % (zlib.crc32(str(i).encode()) % 2)
    if name == "id_mod3":
        return lambda i, md: "g%d" % (zlib.crc32(str(i).encode()) % 3)
    if name == "md_k":
        return lambda i, md: ("md:%s" % md.get("k")) if md is not None \
            else "nomd"
    if name == "const":
        return lambda i, md: "all"
    if name == "injective":
        return lambda i, md: "G_" + str(i)
    if name == "none_some":
        return lambda i, md: None if zlib.crc32(str(i).encode()) % 2 else "x"
    raise ValueError(name)


def _vals(t):
    return np.asarray(t.matrix_data.tocoo().data, dtype=float)


def is_count_table(t):
    v = _vals(t)
    return not (np.any(v < 0) or np.any(v != np.floor(v)) or
                np.any(v > 2 ** 40))


def _fresh(names, taken):
    out, taken = [], set(taken)
    for n in names:
        while n in taken:
            n += "'"
        taken.add(n)
        out.append(n)
    return out


def make_other(t, rec_, purpose, axis=None):
    """An auxiliary table whose IDs overlap the current ones as the recipe
    says.  purpose: merge | concat | align."""
    from biom import Table
    obs = [str(i) for i in t.ids(axis="observation")]
    samp = [str(i) for i in t.ids()]
    if purpose == "align":
        po = hops.perm_from_key(len(obs), rec_["key_o"])
        ps = hops.perm_from_key(len(samp), rec_["key_s"])
        o = [obs[i] for i in po] if rec_["obs_mask"][0] else \
            ["zo%d" % i for i in range(len(obs))]
        s = [samp[i] for i in ps] if rec_["samp_mask"][0] else \
            ["zs%d" % i for i in range(len(samp))]
    else:
        mo = hops.mask_for(len(obs), rec_["obs_mask"])
        ms = hops.mask_for(len(samp), rec_["samp_mask"])
        o = [x for x, k in zip(obs, mo) if k]
        s = [x for x, k in zip(samp, ms) if k]
        o = [o[i] for i in hops.perm_from_key(len(o), rec_["key_o"])]
        s = [s[i] for i in hops.perm_from_key(len(s), rec_["key_s"])]
        o += _fresh(["xo%d_%d" % (rec_["vseed"], i)
                     for i in range(rec_["extra_o"])], obs)
        s += _fresh(["xs%d_%d" % (rec_["vseed"], i)
                     for i in range(rec_["extra_s"])], samp)
        if purpose == "concat":
            # IDs on the concatenation axis must be disjoint from t's
            if axis == "sample":
                s = ["c%d_%s" % (rec_["vseed"], x) for x in s]
            else:
                o = ["c%d_%s" % (rec_["vseed"], x) for x in o]
    rows = [[float((rec_["vseed"] + 3 * i + 5 * j) % 4)
             for j in range(len(s))] for i in range(len(o))]
    omd = smd = None
    if rec_["md"]:
        omd = [{"k": "other%d" % i} for i in range(len(o))]
        smd = [{"grp": "og%d" % (i % 2)} for i in range(len(s))]
    return Table(np.asarray(rows, dtype=float).reshape(len(o), len(s)), o, s,
                 omd, smd)


def apply(t, op):
    """Apply `op` to table `t` with the real API."""
    name = op["op"]
    if op.get("npflag"):
        op = {k: (np.bool_(v) if isinstance(v, bool) else v)
              for k, v in op.items()}
    if t.is_empty() and (name not in EMPTY_OK or (
            name == "merge" and (op["sample"], op["observation"]) !=
            ("union", "union"))):
        return Outcome(skipped="empty table")
    if name == "filter":
        ids = [str(i) for i in t.ids(axis=op["axis"])]
        mk = hops.mask_for(len(ids), op["mask"])
        keep = [i for i, k in zip(ids, mk) if k]
        if op["invert"] and len(keep) == len(ids):
            keep = keep[1:] or keep
            if len(keep) == len(ids):
                return Outcome(skipped="would empty the table")
        if op["how"] == "ids":
            sel = keep
        elif op["how"] == "pred_value":
            # a predicate that looks at the values it is handed
            j = sum(1 for k in mk if k)

            def sel(v, i, md):
                return v[j % len(v)] != 0
            from copy import deepcopy
            D = deepcopy(t).matrix_data.toarray()
            col = D[:, j % D.shape[1]] if op["axis"] == "observation" \
                else D[j % D.shape[0], :]
            kept = int(((col != 0) != bool(op["invert"])).sum())
            if kept == 0:
                return Outcome(skipped="would empty the table")
        else:
            ks = set(keep)

            def sel(v, i, md):
                return i in ks
        held = _held(sel) if op["how"] == "ids" else None
        # filter(ids_to_keep, axis='sample', invert=False, inplace=True)
        r = _call(t.filter, [sel], {"axis": op["axis"],
                                    "invert": op["invert"],
                                    "inplace": op["inplace"]}, op,
                  {"axis": "sample", "invert": False, "inplace": True})
        if held is not None:
            _same_arg("filter", sel, held)
        return Outcome(r, inplace=op["inplace"])
    if name == "drop_all":
        # filtering an axis down to nothing is allowed (the 'empty' error
        # kind is ignored by default) and leaves an empty table behind
        r = t.filter([], axis=op["axis"], inplace=op["inplace"])
        return Outcome(r, inplace=op["inplace"])
    if name == "remove_empty":
        if t.matrix_data.count_nonzero() == 0 and not t.is_empty():
            return Outcome(skipped="would empty the table")
        r = _call(t.remove_empty, [], {"axis": op["axis"],
                                       "inplace": op["inplace"]}, op,
                  {"axis": "whole", "inplace": True})
        return Outcome(r, inplace=op["inplace"])
    if name == "head":
        return Outcome(t.head(op["n"], op["m"]))
    if name == "sort":
        from .props.c06 import sort_f
        f = sort_f(op["f"])
        r = t.sort(axis=op["axis"]) if f is None else \
            t.sort(sort_f=f, axis=op["axis"])
        return Outcome(r)
    if name == "sort_order":
        ids = [str(i) for i in t.ids(axis=op["axis"])]
        p = hops.perm_from_key(len(ids), op["key"])
        order = [ids[i] for i in p]
        if len(ids) >= 2 and sum(op["key"]) % 4 == 0:
            # an order naming one ID twice is not a reordering: refused (a
            # result would carry a duplicated ID, which the invariants report)
            from biom.exception import TableException
            order[-1] = order[0]
            try:
                r = t.sort_order(order, axis=op["axis"])
            except TableException:
                return Outcome(skipped="repeated id refused")
            return Outcome(r)
        held = _held(order)
        r = _call(t.sort_order, [order], {"axis": op["axis"]}, op,
                  {"axis": "sample"})
        _same_arg("sort_order", order, held)
        return Outcome(r)
    if name == "transpose":
        return Outcome(t.transpose())
    if name == "copy":
        return Outcome(t.copy())
    if name == "update_ids":
        ids = [str(i) for i in t.ids(axis=op["axis"])]
        sty = op["style"]
        if sty == "swap":
            mp = {ids[k]: ids[(k + 1) % len(ids)] for k in range(len(ids))}
        elif sty == "lengthen":
            mp = {i: i + "_longer_identifier" for i in ids}
        elif sty == "shorten":
            mp = {i: "%d" % k for k, i in enumerate(ids)}
        else:
            mp = {i: i + "_r" for i in ids}
        if not op["strict"] and sty != "swap":
            mk = hops.mask_for(len(ids), op["mask"])
            mp = {i: v for (i, v), k in zip(list(mp.items()), mk) if k}
        if sty == "collide_onto":
            # one ID renamed onto another one, which keeps its name: refused
            from biom.exception import TableException
            if len(ids) < 2:
                return Outcome(skipped="one id cannot collide")
            mp = {ids[0]: ids[-1]}
            if op["strict"]:
                mp.update({i: i for i in ids[1:]})
            try:
                r = t.update_ids(mp, axis=op["axis"], strict=op["strict"],
                                 inplace=op["inplace"])
            except TableException:
                return Outcome(skipped="collision refused")
            return Outcome(r, inplace=op["inplace"])
        if sty == "collide":
            # every ID renamed to the same name: refused, whatever the table
            # holds (an accepted one would show duplicate IDs downstream)
            from biom.exception import TableException
            mp = {i: "same-name" for i in ids}
            if len(ids) < 2:
                return Outcome(skipped="one id cannot collide")
            if len(ids) >= 3 and sum(1 for k in op["mask"] if k) % 2:
                # only the first and the last collide (not neighbours)
                mp = {ids[0]: "same-name", ids[-1]: "same-name"}
                if op["strict"]:
                    mp.update({i: i for i in ids[1:-1]})
            try:
                r = t.update_ids(mp, axis=op["axis"], strict=op["strict"],
                                 inplace=op["inplace"])
            except TableException:
                return Outcome(skipped="collision refused")
            return Outcome(r, inplace=op["inplace"])
        new = [mp.get(i, i) for i in ids]
        if len(set(new)) != len(new):
            return Outcome(skipped="non-injective renaming")
        held = _held(mp)
        # update_ids(id_map, axis='sample', strict=True, inplace=True)
        r = _call(t.update_ids, [mp], {"axis": op["axis"],
                                       "strict": op["strict"],
                                       "inplace": op["inplace"]}, op,
                  {"axis": "sample", "strict": True, "inplace": True})
        _same_arg("update_ids", mp, held)
        return Outcome(r, inplace=op["inplace"])
    if name == "add_metadata":
        ids = [str(i) for i in t.ids(axis=op["axis"])]
        mk = hops.mask_for(len(ids), op["mask"])
        md = {i: {op["key"]: "added-%s" % i} for i, k in zip(ids, mk) if k}
        if op.get("unknown"):
            md["id-not-in-table"] = {op["key"]: "zzz"}
        held = _held(md)
        t.add_metadata(md, axis=op["axis"])
        _same_arg("add_metadata", md, held)
        return Outcome(t, inplace=True)
    if name == "del_metadata":
        keys = _held(op["keys"])
        t.del_metadata(keys=keys, axis=op["axis"])
        _same_arg("del_metadata", keys, op["keys"]) if keys is not None \
            else None
        return Outcome(t, inplace=True)
    if name == "transform":
        if op["fn"] in ("div_sum",):
            v = _vals(t)
            if np.any(v < 0):
                return Outcome(skipped="div_sum on negatives")
        r = _call(t.transform, [transform_fn(op["fn"])],
                  {"axis": op["axis"], "inplace": op["inplace"]}, op,
                  {"axis": "sample", "inplace": True})
        return Outcome(r, inplace=op["inplace"])
    if name == "norm":
        if np.any(_vals(t) < 0):
            return Outcome(skipped="norm on negative values")
        r = _call(t.norm, [], {"axis": op["axis"],
                               "inplace": op["inplace"]}, op,
                  {"axis": "sample", "inplace": True})
        return Outcome(r, inplace=op["inplace"])
    if name == "pa":
        r = _call(t.pa, [], {"inplace": op["inplace"]}, op,
                  {"inplace": True})
        return Outcome(r, inplace=op["inplace"])
    if name == "rankdata":
        # rankdata(axis='sample', inplace=True, method='average')
        r = _call(t.rankdata, [], {"axis": op["axis"],
                                   "inplace": op["inplace"],
                                   "method": op["method"]}, op,
                  {"axis": "sample", "inplace": True, "method": "average"})
        return Outcome(r, inplace=op["inplace"])
    if name == "subsample":
        if not op["by_id"] and not is_count_table(t):
            return Outcome(skipped="subsample on non-count table")
        r = t.subsample(op["n"], axis=op["axis"], by_id=op["by_id"],
                        with_replacement=op["with_replacement"],
                        seed=op["seed"])
        return Outcome(r)
    if name == "collapse":
        if op["f"] == "md_k" and t.metadata(axis=op["axis"]) is None:
            return Outcome(skipped="collapse by metadata without metadata")
        n_axis = len(t.ids(axis=op["axis"]))
        f = labeller(op["f"])
        if op["min_group_size"] > 1:
            labs = {}
            md = t.metadata(axis=op["axis"])
            for k, i in enumerate(t.ids(axis=op["axis"])):
                lab = f(i, md[k] if md is not None else None)
                labs[lab] = labs.get(lab, 0) + 1
            if not any(c >= op["min_group_size"] for c in labs.values()):
                return Outcome(skipped="no group reaches min_group_size")
        r = t.collapse(f, norm=op["norm"], axis=op["axis"],
                       min_group_size=op["min_group_size"],
                       include_collapsed_metadata=op["include_md"])
        return Outcome(r)
    if name == "partition":
        if op["f"] == "md_k" and t.metadata(axis=op["axis"]) is None:
            return Outcome(skipped="partition by metadata without metadata")
        parts = list(t.partition(labeller(op["f"]), axis=op["axis"],
                                 remove_empty=op["remove_empty"],
                                 ignore_none=op["ignore_none"]))
        tabs = [p[1] for p in parts]
        live = [x for x in tabs if not x.is_empty()]
        pick = live[op["pick"] % len(live)] if live else None
        return Outcome(pick, results=tabs)
    if name == "merge":
        other = make_other(t, op["other"], "merge")
        if other.is_empty():
            return Outcome(skipped="empty operand")
        for axis, mode in (("sample", op["sample"]),
                           ("observation", op["observation"])):
            if mode == "intersection" and not (
                    set(map(str, t.ids(axis=axis))) &
                    set(map(str, other.ids(axis=axis)))):
                return Outcome(skipped="empty intersection")
        r = t.merge(other, sample=op["sample"], observation=op["observation"])
        return Outcome(r, args=[other])
    if name == "concat":
        other = make_other(t, op["other"], "concat", op["axis"])
        if other.is_empty():
            return Outcome(skipped="empty operand")
        if set(map(str, other.ids(axis=op["axis"]))) & \
                set(map(str, t.ids(axis=op["axis"]))):
            return Outcome(skipped="concat operands not disjoint")
        others = [other]
        if op.get("omit_defaults"):
            # the module-level entry point
            import biom
            others = [t, other]
            r = biom.concat(others, axis=op["axis"])
            if len(others) != 2 or others[0] is not t:
                from .core import Violation
                raise Violation("argument-modified", "biom.concat changed "
                                "the list of tables it was given")
            return Outcome(r, args=[other])
        r = t.concat(others, axis=op["axis"])
        if len(others) != 1 or others[0] is not other:
            from .core import Violation
            raise Violation("argument-modified", "concat changed the list "
                            "of tables it was given")
        return Outcome(r, args=[other])
    if name == "align_to":
        other = make_other(t, op["other"], "align")
        can_o = bool(op["other"]["obs_mask"][0])
        can_s = bool(op["other"]["samp_mask"][0])
        ok = {"sample": can_s, "observation": can_o, "both": can_o and can_s,
              "detect": can_o or can_s}[op["axis"]]
        if not ok:
            return Outcome(skipped="not alignable")
        r = t.align_to(other, axis=op["axis"])
        return Outcome(r, args=[other])
    raise ValueError("unknown op %r" % (op,))


# operations also applied to tables that have become empty (a reached state)
EMPTY_OK = {"copy", "transpose", "sort", "head", "remove_empty",
            "del_metadata", "merge", "concat", "collapse", "partition"}
HAS_INPLACE = {"filter", "drop_all", "remove_empty", "update_ids", "transform", "norm",
               "pa", "rankdata"}
NEW_TABLE = {"sort", "sort_order", "transpose", "copy", "head", "subsample",
             "partition", "collapse", "merge", "concat", "align_to"}
