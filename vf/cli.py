"""Invoke a `biom` sub-command either in-process (the click Command object,
~4 ms) or as a real `biom <name> ...` process through the `cli` group (~0.7 s;
exercises the group wiring and the console entry point)."""
import contextlib
import io
import os
import subprocess
import sys

from .core import REPO


def command(name):
    """The click Command registered under the CLI name `name` (e.g.
    'subset-table'); looked up through the `biom` command group so that the
    checks depend on the command-line interface, not on module / function
    names inside biom.cli."""
    from biom.cli import cli
    return cli.commands[name]


def _prefill(args):
    """Every third invocation (decided by the content of the input file, so
    that a case replays identically) finds its output path already holding a
    longer, unrelated file: a command writes its output, it does not patch
    what was there."""
    import zlib
    args = list(args)
    key = 0
    for flag in ("-i", "--input-fp"):
        if flag in args[:-1]:
            try:
                with open(args[args.index(flag) + 1], "rb") as f:
                    key = zlib.crc32(f.read(1 << 16))
            except OSError:
                pass
    for flag in ("-o", "--output-fp"):
        if flag in args[:-1]:
            out = args[args.index(flag) + 1]
            if not os.path.exists(out) and key % 3 == 0:
                with open(out, "w", encoding="utf8") as f:
                    f.write("stale output of an earlier run\n" * 4000)
                return True
    return False


def invoke(command, name, args, sub=False):
    """Returns (exit_code, stdout_text)."""
    _prefill(args)
    if sub:
        code = ("import sys; sys.path.insert(0, %r); "
                "from biom.cli import cli; cli()" % REPO)
        env = dict(os.environ, PYTHONHASHSEED="0", LC_ALL="C", LANG="C")
        r = subprocess.run([sys.executable, "-c", code, name] + list(args),
                           capture_output=True, text=True, env=env,
                           cwd="/")
        return r.returncode, r.stdout
    buf = io.StringIO()
    rc = 0
    with contextlib.redirect_stdout(buf):
        try:
            command.main(list(args), standalone_mode=False)
        except SystemExit as e:
            rc = e.code if isinstance(e.code, int) else (0 if e.code is None
                                                         else 1)
    return rc, buf.getvalue()


SUB = [False] * 80 + [True]
