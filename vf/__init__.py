"""Property-based verification machinery for biocore/biom-format (see DESIGN.md)."""
