"""Shared Hypothesis strategies.  Everything generated is plain JSON data
(`spec` dicts); `build(spec)` realises a spec as a real biom Table."""
import sys

import numpy as np
from hypothesis import strategies as st

TYPES = ["OTU table", "Pathway table", "Function table", "Ortholog table",
         "Gene table", "Metabolite table", "Taxon table"]

AXES = ["sample", "observation"]

# ---------------------------------------------------------------------------
# values

_EXTREMES = [sys.float_info.max, -sys.float_info.max, 5e-324, -5e-324,
             1e-310, 1e300, -1e300, 1e-7, 1.0000000000000002, 0.1, 1 / 3,
             123456.7890123, 2.0 ** 53 + 2, 1e-6, 9.999999e-7, 1e16, 0.5,
             1.0, 3.0, -1.0]


def nonzero_value(kind):
    if kind == "count":
        return st.one_of(st.integers(1, 12), st.integers(1, 12),
                         st.integers(1, 10 ** 6)).map(float)
    if kind == "int":
        return st.integers(1, 2 ** 20).flatmap(
            lambda m: st.sampled_from([float(m), float(m), float(-m)]))
    if kind == "posint":
        return st.integers(1, 2 ** 20).map(float)
    if kind == "dyadic":
        return st.tuples(st.integers(1, 2 ** 20), st.integers(0, 10),
                         st.booleans()).map(
            lambda t: (-1.0 if t[2] else 1.0) * t[0] / 2 ** t[1])
    if kind == "posdyadic":
        return st.tuples(st.integers(1, 2 ** 20), st.integers(0, 10)).map(
            lambda t: t[0] / 2 ** t[1])
    if kind == "small":
        return st.sampled_from([1.0, 2.0, 3.0, 5.0, -1.0, -2.0, 0.5, 4.0])
    if kind == "frac":
        # moderate magnitudes that need all 53 bits (no float32 / decimal
        # detour survives them), no overflow when a few are added
        return st.one_of(
            st.tuples(st.integers(1, 2 ** 20),
                      st.sampled_from([3.0, 7.0, 10.0, 1000.0, -3.0])).map(
                lambda t: t[0] / t[1]),
            st.sampled_from([16777217.0, 0.1, 1 / 3, 123456789.125,
                             -0.30000000000000004, 2.0 ** 53 - 1, 1e-7,
                             2.5e-9, -3e-12, 1e-300]))
    if kind == "wild":
        return st.one_of(
            st.floats(allow_nan=False, allow_infinity=False).filter(
                lambda v: v != 0),
            st.sampled_from(_EXTREMES),
            st.integers(1, 10 ** 6).map(float))
    raise ValueError(kind)


@st.composite
def matrices(draw, n, m, kind="int", distinct=False):
    thr = draw(st.sampled_from([0, 0, 2, 6, 9, 10]))
    zr = draw(st.integers(0, 6))
    zero_row = draw(st.integers(0, n - 1)) if zr == 0 else -1
    zero_col = draw(st.integers(0, m - 1)) if zr == 1 else -1
    if distinct:
        mask = draw(st.lists(st.integers(0, 9), min_size=n * m,
                             max_size=n * m))
        sgn = draw(st.sampled_from([1.0, 1.0, -1.0]))
        rows = [[(0.0 if mask[i * m + j] < thr or i == zero_row
                  or j == zero_col else sgn * float(i * m + j + 1))
                 for j in range(m)] for i in range(n)]
        return rows
    cells = draw(st.lists(st.tuples(st.integers(0, 9), nonzero_value(kind)),
                          min_size=n * m, max_size=n * m))
    rows = [[(0.0 if cells[i * m + j][0] < thr or i == zero_row
              or j == zero_col else cells[i * m + j][1])
             for j in range(m)] for i in range(n)]
    if kind in ("int", "dyadic", "small", "wild") and zr == 2:
        # a vector that is not empty although its entries sum to exactly 0
        if m >= 2 and draw(st.booleans()):
            i = draw(st.integers(0, n - 1))
            j1 = draw(st.integers(0, m - 2))
            x = cells[i * m + j1][1]
            rows[i] = [0.0] * m
            rows[i][j1], rows[i][j1 + 1] = x, -x
        elif n >= 2:
            j = draw(st.integers(0, m - 1))
            i1 = draw(st.integers(0, n - 2))
            x = cells[i1 * m + j][1]
            for r in rows:
                r[j] = 0.0
            rows[i1][j], rows[i1 + 1][j] = x, -x
    return rows


def shapes(tier, lo=1):
    hi = 6 if tier == "quick" else 10
    big = 13 if tier == "quick" else 24
    dim = st.sampled_from([0] * 12 + [1] * 12 + [2] * 6 + [3] * 6 + [4]).flatmap(
        lambda k: [st.integers(lo, hi), st.integers(max(lo, 2), 4),
                   st.integers(lo, max(lo, 2)), st.just(1),
                   st.integers(11, big)][k])
    return st.tuples(dim, dim)


# ---------------------------------------------------------------------------
# identifiers

_ASCII = "abcdefghijklmnopqrstuvwxyzABCDEFGHIJKLMNOPQRSTUVWXYZ0123456789_.-"
_PUNCT = " /\\\"'[]{},:;|#=+*()<>?!@$%^&~`"
_NONASCII = "éüßøñçαβ漢字\U0001f9eć "
# every str.splitlines boundary
LINE_BREAKS = "\n\r\x0b\x0c\x1c\x1d\x1e\x85  "


def id_text(kind):
    if kind == "ascii":
        return st.text(_ASCII, min_size=1, max_size=8)
    if kind == "punct":
        return st.text(_ASCII + _PUNCT, min_size=1, max_size=10)
    if kind == "unicode":
        return st.one_of(
            st.text(_ASCII + _PUNCT + _NONASCII, min_size=1, max_size=10),
            st.text(st.characters(blacklist_categories=("Cs",),
                                  blacklist_characters="\x00"),
                    min_size=1, max_size=12),
            st.text(_ASCII + _NONASCII, min_size=30, max_size=60))
    if kind == "tsv":
        bad = "\t\x00" + LINE_BREAKS
        body = st.one_of(
            st.text(_ASCII + _PUNCT + _NONASCII, min_size=1, max_size=10),
            st.text(st.characters(blacklist_categories=("Cs",),
                                  blacklist_characters=bad),
                    min_size=1, max_size=10),
            st.sampled_from(["1", "2.5", "1e5", "nan", "inf", "-3", "0",
                             "a b", "x#y", "None", "50%", "a%%b", "%s",
                             "x: y", "%(k)s", "100%d"]),
            # characters str.splitlines() breaks on, which do not end a
            # line of a tab-separated file (not tab, CR or LF), inside an ID
            st.sampled_from(["a\x0bb", "a\x0cb", "a\x1cb", "a\x1db",
                             "a\x1eb", "a\x85b", "a\u2028b",
                             "a\u2029b"]).map(lambda s: "\0KEEP" + s))
        return body.map(_tsv_clean).filter(lambda s: len(s) > 0)
    raise ValueError(kind)


def _tsv_clean(s):
    if s.startswith("\0KEEP"):
        return s[5:]
    s = "".join(c for c in s if c not in "\t\x00" + LINE_BREAKS)
    s = s.strip()
    while s.startswith("#"):
        s = s[1:].strip()
    return s


@st.composite
def id_lists(draw, n, kind="simple", prefix="o"):
    """`n` distinct non-empty IDs."""
    if kind == "simple":
        style = draw(st.integers(0, 5))
        if style == 5:
            # words: no digit anywhere on the axis, not in any order
            pool = ["gut", "skin", "feces", "tongue", "soil", "water", "Air",
                    "palm", "nose", "ear", "Leaf", "root", "sea", "ice"]
            ids = [prefix + "_" + w for w in draw(st.permutations(pool))[:n]]
            ids += ["%s_%s" % (prefix, "x" * (i + 1))
                    for i in range(n - len(ids))]
            return ids
        if style == 4:
            # valid but awkward: format characters, quotes, blanks inside,
            # numeric-looking, zero-padded twins, prefixes of one another,
            # case twins, non-ASCII, one very long ID
            pool = ["50%", "a%%b", "%s", '"q"', "'q", "x y", "a#b", "1", "1.0",
                    "01", "run1", "run01", "ab", "abc", "Ab", "AB", "é",
                    "漢", "a:b", "a: b", "x;y", "x|y", "[1]", "{k}", "a/b",
                    "a\\b", "-", "_", "L" * 120, "None", "nan", "True"]
            ids = list(draw(st.permutations(pool)))[:n]
            ids = [prefix + ":" + i if draw(st.integers(0, 9)) == 0 else i
                   for i in ids]
            ids += ["%s_%d" % (prefix, i) for i in range(n - len(ids))]
            if len(set(ids)) == len(ids):
                return ids
            style = 0
        if style == 0:
            ids = ["%s%d" % (prefix, i) for i in range(n)]
        elif style == 1:
            ids = ["%s%d" % (prefix, i) for i in range(n)]
            ids = draw(st.permutations(ids))
        elif style == 2:
            # natural-sort bait and differing lengths
            pool = ["%s10" % prefix, "%s2" % prefix, "%s1" % prefix,
                    "%s1.5" % prefix, "%sa" % prefix, "%s" % prefix.upper(),
                    "%s02" % prefix, "%s_long_identifier_%d" % (prefix, n),
                    "%sB" % prefix, "%s3" % prefix, "%s-x" % prefix,
                    "%s 7" % prefix]
            ids = draw(st.permutations(pool))[:n]
            ids = list(ids) + ["%s_%d" % (prefix, i)
                               for i in range(n - len(ids))]
            # already in plain text order (which is not natural order), or
            # its reverse: "nothing to do" shortcuts
            how = draw(st.sampled_from(["asis", "asis", "text", "rtext"]))
            if how != "asis":
                ids = sorted(ids, reverse=how == "rtext")
        else:
            ids = draw(st.lists(id_text("ascii").map(lambda s: prefix + s),
                                min_size=n, max_size=n, unique=True))
        return list(ids)
    return draw(st.lists(id_text(kind), min_size=n, max_size=n, unique=True))


# ---------------------------------------------------------------------------
# metadata (simple domain used by the model-based properties)

def simple_md_value():
    return st.one_of(st.sampled_from(["a", "b", "c", ""]),
                     st.integers(-3, 3),
                     st.lists(st.sampled_from(["k__x", "p__y", "g__z"]),
                              min_size=1, max_size=3))


@st.composite
def simple_md(draw, ids, distinct=False):
    """None, or one mapping per ID (possibly with different keys)."""
    if draw(st.integers(0, 2)) == 0:
        return None
    keys = draw(st.lists(st.sampled_from(["k", "grp", "taxonomy", "n", "x/y"]),
                         min_size=1, max_size=3, unique=True))
    out = []
    for i, _ in enumerate(ids):
        d = {}
        for k in keys:
            if distinct and k == keys[0]:
                d[k] = "v%d" % i
            elif k == "taxonomy":
                d[k] = draw(st.lists(st.sampled_from(["k__x", "p__y", "g__z",
                                                      "s__w"]),
                                     min_size=1, max_size=3))
            elif k == "n":
                d[k] = draw(st.integers(-3, 3))
            else:
                d[k] = draw(st.sampled_from(["a", "b", "c"]))
        out.append(d)
    return out


# ---------------------------------------------------------------------------
# construction forms / layout recipes

FORMS = ["dense", "dense", "lists", "triples", "dict", "csr", "csc", "coo",
         "lil", "dok", "csr_unsorted", "csr_unsorted", "csr_unsorted",
         "csr_zeros", "csc_zeros", "coo_zeros", "list_arrays", "dense_f",
         "dense_view"]


# only for checks whose ground truth is read from the built table (the
# described values are rounded to single precision on the way in)
FORMS_F32 = ["csr_f32", "csc_f32", "coo_f32"]


def encode(rows, form, zeros_mask=None):
    """Encode the dense matrix `rows` (list of lists of float) as the
    constructor input `form`.  Returns (data, kwargs)."""
    import scipy.sparse as sp
    a = np.asarray(rows, dtype=float)
    n, m = a.shape
    if form == "dense":
        return a.copy(), {}
    if form == "dense_f":
        # the same array in column-major memory order
        return np.asfortranarray(a), {}
    if form == "dense_view":
        # a non-contiguous view: every other cell of a larger buffer
        buf = np.full((n * 2 + 1, m * 2 + 1), 7.0)
        buf[:n * 2:2, :m * 2:2] = a
        return buf[:n * 2:2, :m * 2:2], {}
    if form == "lists":
        return [list(r) for r in rows], {"input_is_dense": True}
    if form == "triples":
        t = [[i, j, a[i, j]] for i in range(n) for j in range(m)
             if a[i, j] != 0]
        if not t:
            t = [[n - 1, m - 1, 0.0]]
        return t, {}
    if form == "dict":
        d = {(i, j): a[i, j] for i in range(n) for j in range(m)
             if a[i, j] != 0}
        if not d:
            d = {(n - 1, m - 1): 0.0}
        return d, {}
    if form == "list_arrays":
        return [a[i].copy() for i in range(n)], {}
    if form in ("list_sparse_csr", "list_sparse_csc", "list_sparse_coo"):
        mk = getattr(sp, form[-3:] + "_matrix")
        return [mk(a[i:i + 1, :]) for i in range(n)], {}
    if form in ("csr", "csc", "coo", "lil", "dok", "bsr", "dia"):
        return getattr(sp, form + "_matrix")(a), {}
    if form in FORMS_F32:
        # single-precision sparse input (the table holds the float32 values,
        # as doubles)
        return getattr(sp, form[:3] + "_matrix")(a.astype(np.float32)), {}
    if form == "csr_unsorted":
        c = sp.csr_matrix(a)
        ind, dat, ptr = c.indices.copy(), c.data.copy(), c.indptr
        for i in range(n):
            s, e = ptr[i], ptr[i + 1]
            ind[s:e] = ind[s:e][::-1]
            dat[s:e] = dat[s:e][::-1]
        u = sp.csr_matrix((dat, ind, ptr.copy()), shape=(n, m))
        return u, {}
    if form in ("csr_zeros", "csc_zeros", "coo_zeros"):
        # every cell stored explicitly, zeros included
        r, c = np.nonzero(np.ones_like(a))
        coo = sp.coo_matrix((a[r, c], (r, c)), shape=(n, m))
        if form == "coo_zeros":
            return coo, {}
        # tocsr()/tocsc() keep explicit zeros
        return (coo.tocsr() if form == "csr_zeros" else coo.tocsc()), {}
    raise ValueError(form)


def build(spec, with_history=True, rec=None):
    """Realise a table spec through its construction form, then apply its
    history with the real public operations."""
    from biom import Table
    from . import ops
    data, kw = encode(spec["rows"], spec.get("form", "dense"))
    kwargs = {}
    for k in ("type", "table_id", "generated_by"):
        if spec.get(k) is not None:
            kwargs[k] = spec[k]
    tup = bool(spec.get("md_tuples"))
    for k, kwn in (("obs_gmd", "observation_group_metadata"),
                   ("samp_gmd", "sample_group_metadata")):
        if spec.get(k):
            kwargs[kwn] = {a: tuple(b) for a, b in spec[k].items()}
    obs_ids, samp_ids = list(spec["obs"]), list(spec["samp"])
    if spec.get("ids_as") == "object_array":
        # IDs as they come out of a pandas Index / an object column
        obs_ids = np.array(obs_ids, dtype=object)
        samp_ids = np.array(samp_ids, dtype=object)
    elif spec.get("ids_as") == "tuple":
        obs_ids, samp_ids = tuple(obs_ids), tuple(samp_ids)
    t = Table(data, obs_ids, samp_ids,
              _md_in(spec.get("obs_md"), tup),
              _md_in(spec.get("samp_md"), tup), **kwargs, **kw)
    if with_history:
        t = ops.apply_history(t, spec.get("history", []), rec)
    return t


def _md_in(md, tuples=False):
    """Fresh metadata objects for the constructor; with `tuples`, list values
    are handed over as tuples (cases are JSON data, which has no tuples)."""
    if md is None:
        return None
    import copy
    out = [copy.deepcopy(m) for m in md]
    if tuples:
        out = [{k: (tuple(v) if isinstance(v, list) else v)
                for k, v in m.items()} if m is not None else None
               for m in out]
    return out


@st.composite
def table_specs(draw, tier="quick", values="int", ids="simple", md=True,
                history=True, history_kind="any", forms=True, types=True,
                distinct=False, min_dim=1, shape=None, poke=False, f32=False):
    n, m = shape if shape is not None else draw(shapes(tier, min_dim))
    rows = draw(matrices(n, m, values, distinct=distinct))
    spec = {
        "obs": draw(id_lists(n, ids, "o")),
        "samp": draw(id_lists(m, ids, "s")),
        "rows": rows,
    }
    if ids == "simple" and draw(st.sampled_from([False] * 11 + [True])):
        # an observation and a sample may share a name (numeric IDs often
        # do); the two axes are separate name spaces
        k = min(n, m)
        rest = [x for x in spec["samp"][k:] if x not in spec["obs"][:k]]
        if len(rest) == m - k:
            spec["samp"] = list(spec["obs"][:k]) + rest
    if md:
        spec["obs_md"] = draw(simple_md(spec["obs"], distinct=distinct))
        spec["samp_md"] = draw(simple_md(spec["samp"], distinct=distinct))
    else:
        spec["obs_md"] = spec["samp_md"] = None
    spec["type"] = draw(st.sampled_from([None] + TYPES)) if types else None
    spec["form"] = draw(st.sampled_from(FORMS)) if forms else "dense"
    if f32 and forms and draw(st.sampled_from([False] * 9 + [True])):
        spec["form"] = draw(st.sampled_from(FORMS_F32))
    k_ = draw(st.integers(0, 11))
    if k_ < 2:
        spec["ids_as"] = ["object_array", "tuple"][k_]
    if history:
        from . import ops
        spec["history"] = draw(ops.histories(history_kind,
                                             counts=(values == "count"),
                                             poke=poke))
    else:
        spec["history"] = []
    return spec


@st.composite
def big_specs(draw, md="simple", values="count"):
    """A table with one long axis (past 256 entries: block-wise and
    'large axis' code paths), built procedurally from a few drawn numbers so
    that the case stays small to generate.  Same keys as table_specs()."""
    long_ = draw(st.sampled_from([257, 300, 513, 257, 300, 513, 1030, 2049]))
    short = draw(st.integers(1, 3))
    axis = draw(st.sampled_from(["observation", "observation", "sample"]))
    n, m = (long_, short) if axis == "observation" else (short, long_)
    a, b, c = draw(st.integers(1, 6)), draw(st.integers(1, 6)), \
        draw(st.integers(0, 9))
    dens = draw(st.sampled_from([2, 3, 5]))

    def val(i, j):
        if (i * a + j * b + c) % dens == 0:
            return 0.0
        v = float((i * 7 + j * 3 + c) % 97 + 1)
        if values == "dyadic":
            v = v / 8 * (-1 if (i + j) % 4 == 0 else 1)
        return v
    rows = [[val(i, j) for j in range(m)] for i in range(n)]
    pre = draw(st.sampled_from(["o", "OTU_", "x "]))
    obs = ["%s%d" % (pre, i) for i in range(n)]
    samp = ["s%d" % j for j in range(m)]
    if draw(st.booleans()):
        # not in creation order
        k = draw(st.integers(2, 11))
        obs = obs[::k] + [x for q, x in enumerate(obs) if q % k]
        samp = samp[::-1]
    spec = {"obs": obs, "samp": samp, "rows": rows, "type": None,
            "form": draw(st.sampled_from(["dense", "csr", "csc",
                                          "csr_unsorted"])),
            "history": [], "obs_md": None, "samp_md": None}
    if md == "simple" and draw(st.booleans()):
        spec["obs_md"] = [{"k": "ov%d" % i, "taxonomy": ["k__%d" % (i % 7),
                                                         "p__%d" % i]}
                          for i in range(n)]
        spec["samp_md"] = [{"k": "sv%d" % j} for j in range(m)] \
            if draw(st.booleans()) else None
    return spec


# ---------------------------------------------------------------------------
# HDF5 (BIOM 2.1) metadata domain: same categories on every ID, each category
# homogeneous (all text / all numeric-or-bool / lists of non-empty text under
# the reserved hierarchical categories)

_H5TEXT = st.one_of(
    st.text(_ASCII + " ;|", max_size=6),
    st.text(st.characters(blacklist_categories=("Cs",),
                          blacklist_characters="\x00"), max_size=8))
_H5TEXT1 = st.one_of(
    st.text(_ASCII + "_;", min_size=1, max_size=6),
    st.text(st.characters(blacklist_categories=("Cs",),
                          blacklist_characters="\x00"), min_size=1,
            max_size=6))


def h5_category_names():
    return st.one_of(
        st.sampled_from(["k", "pH", "a/b", "/lead", "trail/", "x y", "é",
                         "Body Site", "a//b", "depth(m)"]),
        st.text(st.characters(blacklist_categories=("Cs",),
                              blacklist_characters="\x00"),
                min_size=1, max_size=6)).filter(
        lambda s: s not in (".", "..") and "@@SLASH@@" not in s and
        s not in ("taxonomy", "Taxonomy", "KEGG_Pathways", "collapsed_ids"))


@st.composite
def h5_md(draw, n):
    """None or a list of n dicts in the HDF5 domain."""
    if n == 0 or draw(st.integers(0, 2)) == 0:
        return None
    cats = draw(st.lists(h5_category_names(), min_size=0, max_size=3,
                         unique=True))
    out = [{} for _ in range(n)]
    for c in cats:
        kind = draw(st.sampled_from(["text", "int", "float", "bool", "mixnum"]))
        if kind == "text":
            vals = draw(st.lists(_H5TEXT, min_size=n, max_size=n))
        elif kind == "int":
            # (integers no double can hold: 2**53 + 1 and beyond)
            vals = draw(st.lists(st.one_of(
                st.integers(-5, 5), st.integers(-2 ** 63, 2 ** 63 - 1),
                st.sampled_from([2 ** 53 + 1, -(2 ** 53) - 1, 2 ** 63 - 1,
                                 -2 ** 63, 10 ** 17 + 1, 2 ** 62 + 3])),
                min_size=n, max_size=n))
        elif kind == "float":
            vals = draw(st.lists(st.floats(allow_nan=False,
                                           allow_infinity=False),
                                 min_size=n, max_size=n))
        elif kind == "bool":
            vals = draw(st.lists(st.booleans(), min_size=n, max_size=n))
        else:
            vals = draw(st.lists(st.one_of(
                st.integers(-2 ** 40, 2 ** 40),
                st.floats(allow_nan=False, allow_infinity=False, width=32),
                st.booleans()), min_size=n, max_size=n))
        for d, v in zip(out, vals):
            d[c] = v
    for c in draw(st.lists(st.sampled_from(["taxonomy", "collapsed_ids"]),
                           max_size=2, unique=True)):
        for d in out:
            d[c] = draw(st.lists(_H5TEXT1, min_size=1, max_size=4))
    if not any(out):
        return None
    if len(out) > 1 and len(out[0]) > 1 and draw(st.booleans()):
        # the same categories in every record, not inserted in the same
        # order (a record is a mapping)
        for k in range(1, len(out)):
            keys = list(out[k])
            keys = keys[k % len(keys):] + keys[:k % len(keys)]
            out[k] = {c: out[k][c] for c in keys}
    return out


@st.composite
def h5_table_specs(draw, tier="quick", allow_empty_axis=False, values="wild",
                   ids="unicode", poke=False, shape=None, big=False):
    if big and shape is None and \
            draw(st.sampled_from([False] * 29 + [True])):
        # one axis past 256 entries (block-wise writers / readers)
        spec = draw(big_specs(md="simple", values="dyadic"))
        spec.update({"shape": [len(spec["obs"]), len(spec["samp"])],
                     "table_id": None, "obs_gmd": None, "samp_gmd": None})
        return spec
    if shape is not None:
        n, m = shape
    elif allow_empty_axis and draw(st.integers(0, 5)) == 0:
        n, m = draw(st.sampled_from([(0, 1), (0, 3), (2, 0), (1, 0)]))
    else:
        n, m = draw(shapes(tier))
    rows = draw(matrices(n, m, values)) if n and m else \
        [[] for _ in range(n)]
    from . import ops
    spec = {
        "obs": draw(id_lists(n, ids, "o")) if n else [],
        "samp": draw(id_lists(m, ids, "s")) if m else [],
        "rows": rows,
        "shape": [n, m],
        "obs_md": draw(h5_md(n)),
        "samp_md": draw(h5_md(m)),
        "type": draw(st.sampled_from([None] + TYPES)),
        "table_id": draw(st.one_of(st.none(), _H5TEXT1)),
        "form": draw(st.sampled_from(FORMS + FORMS_F32[:1])) if n and m
        else "dense",
        "history": draw(ops.histories("any", poke=poke)) if n and m else [],
    }
    for ax in ("obs_gmd", "samp_gmd"):
        spec[ax] = draw(st.one_of(st.none(), st.dictionaries(
            st.sampled_from(["tree", "phylogeny", "graph", "rel é"]),
            st.tuples(st.sampled_from(["newick", "text", "json"]),
                      st.one_of(st.just("((a,b),c);"), _H5TEXT)).map(list),
            min_size=1, max_size=2)))
    return spec


def build_h5(spec, rec=None):
    """Like build() for HDF5-domain specs (empty axes, group metadata)."""
    from biom import Table
    from . import ops
    n, m = spec["shape"]
    kwargs = {}
    if spec.get("type") is not None:
        kwargs["type"] = spec["type"]
    if spec.get("table_id") is not None:
        kwargs["table_id"] = spec["table_id"]
    for k, kw in (("obs_gmd", "observation_group_metadata"),
                  ("samp_gmd", "sample_group_metadata")):
        if spec.get(k):
            kwargs[kw] = {a: tuple(b) for a, b in spec[k].items()}
    if n and m:
        data, kw = encode(spec["rows"], spec.get("form", "dense"))
    else:
        # a sparse matrix of the right shape: the dense-array converter
        # deliberately maps (1,0)/(0,1) arrays to a 0x0 matrix
        import scipy.sparse as sp
        data, kw = sp.csr_matrix((n, m)), {}
    t = Table(data, list(spec["obs"]), list(spec["samp"]),
              _md_in(spec.get("obs_md")), _md_in(spec.get("samp_md")),
              **kwargs, **kw)
    if n and m:
        t = ops.apply_history(t, spec.get("history", []), rec)
    return t
