"""Shared plumbing: violations, recorder, case hashing, known findings,
sharded Hypothesis driver, evidence / replay files.

Every check is a pure function ``check(case, rec)`` over a JSON-serialisable
``case``; it raises :class:`Violation` when the property is broken and uses
``rec`` to classify the case (class histogram, non-triviality).
"""
import hashlib
import json
import os
import sys
import time
import traceback
from collections import Counter

VERIF_DIR = os.path.dirname(os.path.dirname(os.path.abspath(__file__)))
REPO = os.environ.get("VF_REPO", "/repo")
# evidence/ and replay/ go here (overridden only by the mutation harness so
# that runs against scratch mutants never touch the committed evidence)
OUT_DIR = os.environ.get("VF_OUT", VERIF_DIR)


class Violation(Exception):
    """The property does not hold for this case."""

    def __init__(self, sub, msg, **info):
        super().__init__("%s: %s" % (sub, msg))
        self.sub = sub
        self.msg = msg
        self.info = info


class HarnessError(Exception):
    """The harness itself is broken (never reported as a violation)."""


def canon(case):
    return json.dumps(case, sort_keys=True, ensure_ascii=True,
                      separators=(",", ":"), default=_json_default)


def _json_default(o):
    import numpy as np
    if isinstance(o, np.integer):
        return int(o)
    if isinstance(o, np.floating):
        return float(o)
    if isinstance(o, np.bool_):
        return bool(o)
    if isinstance(o, np.ndarray):
        return o.tolist()
    if isinstance(o, (set, frozenset)):
        return sorted(o)
    if isinstance(o, bytes):
        return {"__bytes__": o.hex()}
    raise TypeError("not JSON serialisable: %r" % (o,))


def case_hash(case):
    return hashlib.sha1(canon(case).encode()).hexdigest()[:16]


def shard_seed(seed, prop, k):
    h = hashlib.sha256(("%d:%s:%d" % (seed, prop, k)).encode()).hexdigest()
    return int(h[:12], 16)


class Recorder:
    """Per-worker bookkeeping; merged by the parent."""

    MAX_SAMPLES = 4

    def __init__(self):
        self.evaluations = 0
        self.nontrivial = set()
        self.classes = Counter()
        self.samples = []
        self.known_hits = Counter()
        self.skipped = Counter()
        self._cur_nt = False
        self._cur_case = None

    # --- called by the driver
    def begin(self, case):
        self.evaluations += 1
        self._cur_nt = False
        self._cur_case = case

    def end(self):
        if self._cur_nt:
            h = case_hash(self._cur_case)
            if h not in self.nontrivial:
                self.nontrivial.add(h)
                if len(self.samples) < self.MAX_SAMPLES:
                    c = canon(self._cur_case)
                    if len(c) < 20000:      # keep the evidence file small
                        self.samples.append(json.loads(c))
        self._cur_case = None

    # --- called by checks
    def cls(self, name, flag=True):
        if flag:
            self.classes[name] += 1

    def nt(self, flag=True):
        """Mark the current case non-trivial by the property's stated rule."""
        if flag:
            self._cur_nt = True

    def skip(self, why):
        self.skipped[why] += 1

    def absorb(self, v):
        """For checks that evaluate many sub-cases per case: True when the
        violation is explained by a *listed* known finding (it is counted and
        the check may continue with its next sub-case)."""
        f = getattr(self, "_absorb", None)
        return bool(f and f(v))

    # --- merging
    def dump(self):
        return {"evaluations": self.evaluations,
                "nontrivial": list(self.nontrivial),
                "classes": dict(self.classes),
                "samples": self.samples,
                "known_hits": dict(self.known_hits),
                "skipped": dict(self.skipped)}

    def merge(self, d):
        self.evaluations += d["evaluations"]
        self.nontrivial.update(d["nontrivial"])
        self.classes.update(d["classes"])
        for s in d["samples"]:
            if len(self.samples) < self.MAX_SAMPLES:
                self.samples.append(s)
        self.known_hits.update(d["known_hits"])
        self.skipped.update(d["skipped"])


# ---------------------------------------------------------------------------
# known findings

def load_known_findings(path=None):
    """Parse KNOWN_FINDINGS.txt -> ({prop: {key: (repro, text)}}, fixed lines)."""
    path = path or os.path.join(VERIF_DIR, "KNOWN_FINDINGS.txt")
    known, fixed = {}, []
    if not os.path.exists(path):
        return known, fixed
    for line in open(path, encoding="utf8"):
        line = line.strip()
        if not line or line.startswith("#"):
            continue
        if line.startswith("known:"):
            parts = line[len("known:"):].split()
            kv, rest = {}, []
            for p in parts:
                if "=" in p and not rest and p.split("=", 1)[0] in (
                        "property", "key", "repro"):
                    k, v = p.split("=", 1)
                    kv[k] = v
                else:
                    rest.append(p)
            known.setdefault(kv["property"], {})[kv["key"]] = (
                kv.get("repro"), " ".join(rest))
        elif line.startswith("fixed:"):
            fixed.append(line)
    return known, fixed


def run_case(mod, case, rec, known_keys):
    """Run one case; a failure explained by a *listed* finding is counted and
    treated as passing so the search continues."""
    rec.begin(case)
    rec._absorb = lambda v: _absorb(mod, case, v, known_keys, rec)
    _breadcrumb(case)
    try:
        try:
            mod.check(case, rec)
        except Violation:
            raise
        except Exception as e:
            v = library_exception(e)
            if v is None:
                raise
            raise v from e
    except Violation as v:
        key = classify(mod, case, v, known_keys)
        if key is None:
            raise
        rec.known_hits[key] += 1
    finally:
        rec.end()


_CRUMB = {"dir": None}


def _breadcrumb(case):
    """Worker processes note the case they are about to run, so that a
    process killed by a signal (a crash in native code reached through the
    library) still leaves its case behind."""
    d = _CRUMB["dir"]
    if d is None:
        return
    try:
        with open(os.path.join(d, "%d.json" % os.getpid()), "w",
                  encoding="utf8") as f:
            f.write(canon(case))
    except OSError:
        pass


def _pool_map(fn, jobs, procs):
    """Like Pool.imap_unordered, but a worker that dies does not hang the
    run: yields results, then (if the pool broke) a {"crash": case} record."""
    import multiprocessing as mp
    import shutil
    import tempfile
    from concurrent.futures import ProcessPoolExecutor, as_completed
    from concurrent.futures.process import BrokenProcessPool
    base = "/dev/shm" if os.path.isdir("/dev/shm") else None
    crumbs = tempfile.mkdtemp(prefix="vf-crumbs-", dir=base)
    _CRUMB["dir"] = crumbs
    broken = False
    try:
        with ProcessPoolExecutor(max_workers=max(1, min(procs, len(jobs))),
                                 mp_context=mp.get_context("fork")) as ex:
            futs = [ex.submit(fn, j) for j in jobs]
            for f in as_completed(futs):
                try:
                    yield f.result()
                except BrokenProcessPool:
                    broken = True
                    break
        if broken:
            case = None
            for name in sorted(os.listdir(crumbs)):
                pid = int(name.split(".")[0])
                try:
                    os.kill(pid, 0)
                    alive = True
                except OSError:
                    alive = False
                if not alive:
                    with open(os.path.join(crumbs, name),
                              encoding="utf8") as fh:
                        case = json.loads(fh.read())
                    break
            yield {"crash": case}
    finally:
        _CRUMB["dir"] = None
        shutil.rmtree(crumbs, ignore_errors=True)


CRASH_MSG = ("the process running this case was killed by a signal: a crash "
             "in native code reached through the library")


def _case_worker(args):
    modname, case, known_keys = args
    import importlib
    mod = importlib.import_module(modname)
    rec = Recorder()
    fail = err = None
    try:
        run_case(mod, case, rec, known_keys)
    except Violation as v:
        fail = (json.loads(canon(case)), v.sub, v.msg)
    except BaseException as e:
        err = "".join(traceback.format_exception(
            type(e), e, e.__traceback__))[-6000:]
    return {"rec": rec.dump(), "fail": fail, "error": err}


def run_cases_isolated(mod, cases, rec, known_keys, procs=8):
    """Pinned cases, each in a child process.  Returns (n, fail, error)."""
    jobs = [(mod.__name__, c, list(known_keys)) for c in cases]
    if not jobs:
        return 0, None, None
    n, fails, errors = 0, [], []
    for out in _pool_map(_case_worker, jobs, procs):
        if "crash" in out:
            fails.append((out["crash"], "process-crash", CRASH_MSG))
            continue
        n += 1
        rec.merge(out["rec"])
        if out["fail"]:
            fails.append(out["fail"])
        if out["error"]:
            errors.append(out["error"])
    return n, (fails[0] if fails else None), (errors[0] if errors else None)


def _absorb(mod, case, v, known_keys, rec):
    key = classify(mod, case, v, known_keys)
    if key is None:
        return False
    rec.known_hits[key] += 1
    return True


def library_exception(e):
    """An exception that escaped from biom code while a check performed an
    operation that is inside the property's domain means the operation did
    not do what the property says -> Violation.  An exception with no biom
    frame in its traceback is a harness bug -> None (re-raised)."""
    tb = traceback.extract_tb(e.__traceback__)
    repo = os.path.abspath(REPO) + os.sep
    frames = [f for f in tb if os.path.abspath(f.filename).startswith(repo)]
    if not frames:
        return None
    f = frames[-1]
    where = "%s:%s" % (os.path.relpath(f.filename, repo), f.name)
    return Violation("unexpected-exception:%s@%s" % (type(e).__name__, where),
                     "%s: %s (at %s line %s: %s)" % (
                         type(e).__name__, e, where, f.lineno, f.line))


def classify(mod, case, v, known_keys):
    classifiers = getattr(mod, "CLASSIFIERS", {})
    for key in known_keys:
        f = classifiers.get(key)
        if f is None:
            continue
        try:
            if f(case, v):
                return key
        except Exception:
            continue
    return None


# ---------------------------------------------------------------------------
# sharded hypothesis driver

def _worker(args):
    (modname, tier, seed, k, n_examples, known_keys, shrink_s) = args
    import importlib
    from hypothesis import given, settings, HealthCheck, Phase
    from hypothesis import seed as hseed
    import hypothesis.internal.conjecture.engine as engine
    engine.MAX_SHRINKING_SECONDS = shrink_s
    import warnings
    warnings.simplefilter("ignore")
    mod = importlib.import_module(modname)
    rec = Recorder()
    state = {"fail": None}
    strat = mod.strategy(tier)

    def body(case):
        try:
            run_case(mod, case, rec, known_keys)
        except Violation as v:
            c = canon(case)
            if state["fail"] is None or len(c) <= state["size"]:
                state["fail"] = (json.loads(c), v.sub, v.msg)
                state["size"] = len(c)
            raise

    test = given(strat)(body)
    test = hseed(shard_seed(seed, mod.ID, k))(test)
    test = settings(max_examples=n_examples, deadline=None, database=None,
                    derandomize=False, report_multiple_bugs=False,
                    suppress_health_check=list(HealthCheck),
                    phases=[Phase.generate, Phase.shrink],
                    print_blob=False)(test)
    out = {"fail": None, "error": None}
    try:
        import io
        import contextlib
        buf = io.StringIO()
        with contextlib.redirect_stdout(buf):
            test()
    except Violation:
        out["fail"] = state["fail"]
    except BaseException as e:
        if state["fail"] is not None:
            # a real violation was observed; whatever the engine raised
            # afterwards (e.g. while shrinking) does not un-observe it
            out["fail"] = state["fail"]
        else:
            out["error"] = "".join(traceback.format_exception(
                type(e), e, e.__traceback__))[-6000:]
    out["rec"] = rec.dump()
    return out


def run_hypothesis(mod, tier, seed, rec, known_keys, shards, n_examples,
                   procs=16, shrink_s=25):
    """Run ``shards`` independent seeded Hypothesis campaigns in parallel.
    Returns (fail, error): fail = (case, sub, msg) of the smallest failure."""
    jobs = [(mod.__name__, tier, seed, k, n_examples, list(known_keys),
             shrink_s) for k in range(shards)]
    fails, errors = [], []
    for out in _pool_map(_worker, jobs, min(procs, shards)):
        if "crash" in out:
            fails.append((out["crash"], "process-crash", CRASH_MSG))
            continue
        rec.merge(out["rec"])
        if out["fail"]:
            fails.append(out["fail"])
        if out["error"]:
            errors.append(out["error"])
    fail = min(fails, key=lambda f: len(canon(f[0]))) if fails else None
    if fail is not None and fail[0] is None:
        return None, "a worker process died and left no case behind"
    return fail, (errors[0] if errors else None)


def _enum_worker(args):
    modname, tier, chunk, known_keys = args
    import importlib
    mod = importlib.import_module(modname)
    rec = Recorder()
    fail = None
    err = None
    try:
        for case in mod.enum_chunk(tier, chunk):
            try:
                run_case(mod, case, rec, known_keys)
            except Violation as v:
                fail = (json.loads(canon(case)), v.sub, v.msg)
                break
    except BaseException as e:
        err = "".join(traceback.format_exception(
            type(e), e, e.__traceback__))[-6000:]
    return {"rec": rec.dump(), "fail": fail, "error": err}


def run_enumeration(mod, tier, rec, known_keys, procs=16):
    """Exhaustive sub-domain: ``mod.enum_chunks(tier)`` lists chunk ids,
    ``mod.enum_chunk(tier, chunk)`` yields the cases of one chunk."""
    chunks = list(mod.enum_chunks(tier))
    jobs = [(mod.__name__, tier, c, list(known_keys)) for c in chunks]
    fails, errors = [], []
    sub = Recorder()
    for out in _pool_map(_enum_worker, jobs, procs):
        if "crash" in out:
            fails.append((out["crash"], "process-crash", CRASH_MSG))
            continue
        sub.merge(out["rec"])
        if out["fail"]:
            fails.append(out["fail"])
        if out["error"]:
            errors.append(out["error"])
    n = sub.evaluations
    rec.merge(sub.dump())
    fail = min(fails, key=lambda f: len(canon(f[0]))) if fails else None
    return n, fail, (errors[0] if errors else None)


# ---------------------------------------------------------------------------
# files

def write_replay(prop, case, sub, msg):
    d = os.path.join(OUT_DIR, "replay")
    os.makedirs(d, exist_ok=True)
    name = "%s-%s.json" % (prop, case_hash(case))
    with open(os.path.join(d, name), "w", encoding="utf8") as f:
        json.dump({"property": prop, "sub": sub, "msg": msg, "case": case}, f,
                  indent=1, sort_keys=True, default=_json_default)
    return os.path.join("replay", name)


def write_evidence(prop, tier, seed, level, coverage, assumptions, wall_s,
                   violations):
    d = os.path.join(OUT_DIR, "evidence")
    os.makedirs(d, exist_ok=True)
    ev = {"property_id": prop, "tier": tier, "seed": seed, "level": level,
          "coverage": coverage, "assumptions": assumptions,
          "wall_s": round(wall_s, 2), "violations": violations}
    tmp = os.path.join(d, ".%s.json.tmp" % prop)
    with open(tmp, "w", encoding="utf8") as f:
        json.dump(ev, f, indent=1, sort_keys=True, default=_json_default)
    os.replace(tmp, os.path.join(d, "%s.json" % prop))


# ---------------------------------------------------------------------------
# coverage-guided engine (thorough tier): atheris drives the same property

def run_atheris(mod, tier, seed, rec, seconds, procs=8):
    """Returns (fail, note).  Never raises: an unavailable engine is noted."""
    import subprocess
    import shutil
    import tempfile
    base = tempfile.mkdtemp(prefix="vf-fuzz-", dir="/dev/shm" if
                            os.path.isdir("/dev/shm") else None)
    procs_ = []
    try:
        for k in range(procs):
            out = os.path.join(base, "p%d" % k)
            env = dict(os.environ, PYTHONHASHSEED="0")
            procs_.append((out, subprocess.Popen(
                [sys.executable, "-m", "vf.fuzz", mod.ID, "--seconds",
                 str(seconds), "--seed", str(shard_seed(seed, mod.ID, 1000 + k)
                                             % (2 ** 31 - 1) + 1),
                 "--out", out, "--tier", tier],
                cwd=VERIF_DIR, env=env, stdout=subprocess.DEVNULL,
                stderr=subprocess.DEVNULL)))
        fail, execs, unavailable = None, 0, 0
        for out, p in procs_:
            try:
                rc = p.wait(timeout=seconds * 3 + 120)
            except subprocess.TimeoutExpired:
                p.kill()
                rc = -9
            if rc == 3:
                unavailable += 1
            st = os.path.join(out, "stats.json")
            if os.path.exists(st):
                try:
                    d = json.load(open(st))
                    execs += d.pop("executions", 0)
                    rec.merge(d)
                except Exception:
                    pass
            fj = os.path.join(out, "fail.json")
            if os.path.exists(fj) and fail is None:
                d = json.load(open(fj))
                fail = (d["case"], d["sub"], d["msg"])
        if unavailable == len(procs_):
            return None, "atheris unavailable (engine not installed)"
        return fail, ("atheris 3.1/libFuzzer via fuzz_one_input: %d processes"
                      " x %ds, %d executions" % (len(procs_), seconds, execs))
    finally:
        shutil.rmtree(base, ignore_errors=True)
