"""Coverage-guided campaign: atheris (libFuzzer) drives the *same* Hypothesis
property as the deterministic runner through `fuzz_one_input`, with coverage
instrumentation of `biom`.  It only adds search power - the deciding oracle is
the property's own check() - and is used in the thorough tier.

    python -m vf.fuzz <ID> --seconds N --seed S --out DIR

exit 0 no violation, 1 violation (case written to DIR/fail.json),
3 engine unavailable.
"""
import argparse
import json
import os
import sys
import time


def main():
    ap = argparse.ArgumentParser()
    ap.add_argument("prop")
    ap.add_argument("--seconds", type=int, default=60)
    ap.add_argument("--seed", type=int, default=1)
    ap.add_argument("--out", required=True)
    ap.add_argument("--tier", default="thorough")
    a = ap.parse_args()
    here = os.path.dirname(os.path.dirname(os.path.abspath(__file__)))
    from . import core
    sys.path.insert(0, core.REPO)
    sys.path.append(os.path.join(here, ".deps"))
    try:
        import atheris
    except Exception as e:
        print("atheris unavailable: %r" % (e,))
        return 3
    import warnings
    warnings.simplefilter("ignore")
    with atheris.instrument_imports(include=["biom"]):
        import biom  # noqa
        import biom.table, biom.parse, biom.util, biom.err  # noqa
        import biom.cli  # noqa
    import importlib
    from hypothesis import given, settings, HealthCheck
    mod = importlib.import_module("vf.props.%s" % a.prop.lower())
    known_all, _ = core.load_known_findings()
    known_keys = sorted(known_all.get(a.prop.upper(), {}))
    rec = core.Recorder()
    os.makedirs(a.out, exist_ok=True)
    state = {"n": 0}

    @settings(deadline=None, database=None,
              suppress_health_check=list(HealthCheck))
    @given(mod.strategy(a.tier))
    def prop(case):
        state["n"] += 1
        if state["n"] % 50 == 0:
            _dump(a.out, rec, state)    # libFuzzer exits without atexit
        try:
            core.run_case(mod, case, rec, known_keys)
        except core.Violation as v:
            with open(os.path.join(a.out, "fail.json"), "w") as f:
                json.dump({"case": json.loads(core.canon(case)),
                           "sub": v.sub, "msg": v.msg}, f)
            _dump(a.out, rec, state)
            os._exit(1)

    def one(data):
        prop.hypothesis.fuzz_one_input(data)

    corpus = os.path.join(a.out, "corpus")
    os.makedirs(corpus, exist_ok=True)
    argv = [sys.argv[0], corpus, "-max_total_time=%d" % a.seconds,
            "-seed=%d" % (a.seed or 1), "-max_len=4096", "-verbosity=0",
            "-print_final_stats=0", "-close_fd_mask=0"]
    import atexit
    atexit.register(lambda: _dump(a.out, rec, state))
    atheris.Setup(argv, one)
    try:
        atheris.Fuzz()
    finally:
        _dump(a.out, rec, state)
    return 0


def _dump(out, rec, state):
    try:
        with open(os.path.join(out, "stats.json"), "w") as f:
            d = rec.dump()
            d["executions"] = state["n"]
            json.dump(d, f)
    except Exception:
        pass


if __name__ == "__main__":
    sys.exit(main())
