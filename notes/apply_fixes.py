"""One-off helper used while building: applies each vetted repair from
notes/trial-fixes.diff to /repo as its own `fix:` commit, running the
repository's baseline suite after each one.  Kept for the record."""
import subprocess
import sys

T = "biom/table.py"
E = "biom/err.py"
P = "biom/parse.py"
V = "biom/cli/table_validator.py"

FIXES = [
 ("stored-zeros", [
  (T, """        self._data = self._data.astype(float)

        self._sample_ids""", """        self._data = self._data.astype(float)
        self._data.eliminate_zeros()

        self._sample_ids"""),
 ], """fix: drop explicitly stored zeros when a table is constructed

A sparse matrix handed to the constructor may carry explicitly stored zeros.
They were kept, so nonzero() listed zero cells, min() reported 0 and
transform()/rankdata() passed zeros to the user function.  The list/dict/array
converters already eliminate them; do the same for sparse input."""),

 ("filter-unsorted", [
  (T, """        axis = table._axis_to_num(axis=axis)
        arr = table._data
        arr, ids, metadata = _filter(arr,""", """        axis = table._axis_to_num(axis=axis)
        arr = table._get_sparse_data(axis='sample' if axis == 1
                                     else 'observation')
        # the predicate kernel rebuilds each vector with a merge that assumes
        # sorted indices; reordering (fancy indexing) leaves them unsorted
        arr.sort_indices()
        arr, ids, metadata = _filter(arr,"""),
 ], """fix: predicate filter received wrong vectors after a reordering

The filter kernel rebuilds each dense vector assuming sorted sparse indices.
sort_order()/align_to()/concat() leave unsorted indices behind, after which a
predicate passed to filter() was called with vectors that had values dropped
or misplaced.  Sort the indices before handing the matrix to the kernel."""),

 ("remove-empty", [
  (T, """            table.filter(table.ids(axis=ax)[table.sum(axis=ax) > 0], axis=ax)""",
   """            table.filter(table.ids(axis=ax)[table.nonzero_counts(ax) > 0],
                         axis=ax)"""),
 ], """fix: remove_empty dropped non-empty vectors whose sum is not positive

A vector such as [1, -1] or [-2, 0] is not empty, but remove_empty() kept only
vectors with sum > 0.  Keep the vectors that have at least one non-zero entry."""),

 ("subsample-axis", [
  (T, """            data = table._get_sparse_data()
            subsample(data, n, with_replacement, rng)
            table._data = data
""", """            data = table._get_sparse_data(axis)
            subsample(data, n, with_replacement, rng)
            data.eliminate_zeros()
            table._data = data
"""),
 ], """fix: subsample ignored the axis when subsampling counts

The matrix handed to the subsampling kernel was always column-compressed, so
subsample(n, axis='observation') rarefied samples instead of observations.
Use the layout of the requested axis, and drop the zeros the kernel leaves
stored."""),

 ("subsample-replacement-empty", [
  (T, """        else:
            data = table._get_sparse_data(axis)
            subsample(data, n, with_replacement, rng)""", """        else:
            if with_replacement:
                # vectors without counts cannot be resampled, and would be
                # dropped below anyway
                table.filter(lambda v, i, md: v.sum() > 0, axis=axis)
            data = table._get_sparse_data(axis)
            subsample(data, n, with_replacement, rng)"""),
 ], """fix: subsample with replacement failed when any vector was empty

An all-zero vector produced NaN probabilities and numpy raised ValueError,
so one empty sample made the whole call fail.  Empty vectors are dropped from
the result anyway; drop them before resampling."""),

 ("json-values", [
  (T, """                        "[%d,%d,%f]" % (obs_index, col_index, val)""",
   """                        "[%d,%d,%r]" % (obs_index, col_index, float(val))"""),
 ], """fix: to_json rounded matrix values to six decimals

Values were written with %f: anything below 1e-6 became 0 (and was lost on
reading back) and all other values were rounded.  Write the shortest repr that
round-trips."""),

 ("json-escape", [
  (T, """            direct_io.write('"id": "%s",' % str(self.table_id))""",
   """            direct_io.write('"id": %s,' % dumps(str(self.table_id)))"""),
  (T, """            direct_io.write('"generated_by": "%s",' % generated_by)""",
   """            direct_io.write('"generated_by": %s,' % dumps(generated_by))"""),
  (T, """            id_ = '"id": "%s",' % str(self.table_id)""",
   """            id_ = '"id": %s,' % dumps(str(self.table_id))"""),
  (T, """            generated_by = '"generated_by": "%s",' % generated_by""",
   """            generated_by = '"generated_by": %s,' % dumps(generated_by)"""),
  (T, """            type_ = '"type": "%s",' % self.type""",
   """            type_ = '"type": %s,' % dumps(self.type)"""),
 ], """fix: to_json wrote table id, generated_by and type unescaped

A quote, backslash or control character in any of these strings produced
malformed JSON.  Serialise them with json.dumps like the IDs and metadata."""),

 ("empty-data-shape", [
  (T, """        elif isinstance(values, list) and len(values) == 0:
            return coo_matrix((0, 0))""", """        elif isinstance(values, list) and len(values) == 0:
            return coo_matrix(shape if shape is not None else (0, 0))"""),
 ], """fix: an all-zero table could not be read back from JSON or TSV

An empty data list was turned into a 0x0 matrix even though the number of IDs
(the shape) is known, so the JSON/TSV written for an all-zero table failed to
load with a misleading duplicate-ID error.  Honour the shape when given."""),

 ("json-npbool", [
  (T, """        if isinstance(obj, np.floating):
            return float(obj)
        if isinstance(obj, np.ndarray):""", """        if isinstance(obj, np.floating):
            return float(obj)
        if isinstance(obj, np.bool_):
            return bool(obj)
        if isinstance(obj, np.ndarray):"""),
 ], """fix: to_json failed on numpy boolean metadata

Boolean metadata read from HDF5 comes back as numpy.bool_, which the JSON
encoder did not handle, so such a table could not be written as JSON."""),

 ("hdf5-utf8-ids", [
  (T, """            if ids.size > 0:
                ids_dtype = 'U%d' % max([len(v) for v in ids])""",
   """            if ids.size > 0:
                ids = [general_parser(v) for v in ids]
                ids_dtype = 'U%d' % max([len(v) for v in ids])"""),
 ], """fix: HDF5 tables with non-ASCII IDs could not be read back

IDs are written UTF-8 encoded but the bytes returned by h5py were converted
with numpy's implicit ASCII decoding, raising UnicodeDecodeError.  Decode them
as UTF-8, as is done for metadata."""),

 ("hdf5-subset-isin", [
  (T, """                    idx = np.in1d(source_ids, desired_ids)""",
   """                    idx = np.isin(source_ids, desired_ids)"""),
 ], """fix: from_hdf5(ids=...) used numpy.in1d, removed in numpy 2.4

np.isin is the documented replacement and exists in every supported numpy."""),

 ("hdf5-subset-nomd", [
  (T, """        if not subset_with_metadata and ids is not None:
            ids = set(ids)
""", """        if not subset_with_metadata and ids is not None:
            ids = {general_parser(i) for i in ids}
"""),
  (T, """            axis_ids = h5grp['%s/ids' % axis][:]

            to_keep""", """            axis_ids = np.asarray([general_parser(i) for i in
                                   h5grp['%s/ids' % axis][:]])
            if not ids.issubset(axis_ids):
                raise ValueError("The following ids could not be "
                                 "found in the biom table: %s" %
                                 (ids - set(axis_ids)))

            to_keep"""),
  (T, """                obs_ids = h5grp['observation/ids'][:]
                samp_ids = axis_ids[to_keep]""", """                obs_ids = [general_parser(i) for i in
                           h5grp['observation/ids'][:]]
                samp_ids = axis_ids[to_keep]"""),
  (T, """                samp_ids = h5grp['sample/ids'][:]
                obs_ids = axis_ids[to_keep]""", """                samp_ids = [general_parser(i) for i in
                            h5grp['sample/ids'][:]]
                obs_ids = axis_ids[to_keep]"""),
 ], """fix: from_hdf5(ids, subset_with_metadata=False) could not match text IDs

The requested IDs were compared with the raw bytes h5py returns, so text IDs
never matched (the call then crashed on an empty selection) and unknown IDs
were silently ignored.  Decode both sides and refuse unknown IDs like the
default reader does."""),

 ("json-slicer-strip", [
  (P, """    for rcv in data.split('],'):
        r, c, v = rcv.split(',')
        if c in remap_lookup:""", """    for rcv in data.split('],'):
        r, c, v = map(strip_f, rcv.split(','))
        if c in remap_lookup:"""),
 ], """fix: subset-table on JSON dropped samples when the JSON had spaces

The sample slicer compared the raw column field (" 1") with the index lookup,
unlike the observation slicer which strips it, so any JSON serialised with a
space after commas lost all of its data."""),

 ("json-slicer-strings", [
  (P, """                else:
                    stack.append(cur_char)
            elif cur_char in JSON_CLOSE:""", """                else:
                    stack.append(cur_char)
            elif stack[-1] == QUOTE:
                # inside a string: brackets are text, and an escaped
                # character (e.g., \\") does not end the string
                if cur_char == '\\\\':
                    cur_idx += 1
            elif cur_char in JSON_CLOSE:"""),
 ], """fix: subset-table JSON scanner treated brackets inside strings as structure

direct_parse_key counted [ ] { } and escaped quotes inside string literals, so
an ID or metadata value containing one of them made the command fail."""),

 ("json-slicer-empty-data", [
  (P, """    for rcv in data.split('],'):
        r, c, v = strip_f(rcv).split(',')
        if r in remap_lookup:
            new_data.append(_remap_axis_sparse_obs(rcv, remap_lookup))
    return '[[%s]]' % '],['.join(new_data)""", """    for rcv in data.split('],'):
        if not strip_f(rcv):
            continue
        r, c, v = strip_f(rcv).split(',')
        if r in remap_lookup:
            new_data.append(_remap_axis_sparse_obs(rcv, remap_lookup))
    if not new_data:
        return '[]'
    return '[[%s]]' % '],['.join(new_data)"""),
  (P, """    for rcv in data.split('],'):
        r, c, v = map(strip_f, rcv.split(','))
        if c in remap_lookup:
            new_data.append(_remap_axis_sparse_samp(rcv, remap_lookup))
    return '[[%s]]' % '],['.join(new_data)""", """    for rcv in data.split('],'):
        if not strip_f(rcv):
            continue
        r, c, v = map(strip_f, rcv.split(','))
        if c in remap_lookup:
            new_data.append(_remap_axis_sparse_samp(rcv, remap_lookup))
    if not new_data:
        return '[]'
    return '[[%s]]' % '],['.join(new_data)"""),
 ], """fix: subset-table on JSON failed when the selection had no non-zero data

A table (or a selection of IDs) without any non-zero entry made the JSON
slicer crash on the empty data list, or emit "data": [[]], which cannot be
loaded.  Emit an empty data list instead."""),

 ("json-slicer-string-values", [
  (P, """    if biom_str[cur_idx] not in JSON_OPEN:
        # do we have a number?""", """    if biom_str[cur_idx] == QUOTE:
        # a string: runs to the closing quote, whatever it contains
        cur_idx += 1
        while biom_str[cur_idx] != QUOTE:
            if biom_str[cur_idx] == '\\\\':
                cur_idx += 1
            cur_idx += 1
        cur_idx += 1

    elif biom_str[cur_idx] not in JSON_OPEN:
        # do we have a number?"""),
 ], """fix: subset-table JSON scanner cut string values at a comma or brace

A top-level string value (table id, generated_by, ...) was scanned like a
number, up to the next ',', '{' or '}', so a value such as
"generated_by": "QIIME 1.9.1, biom 2.1" was truncated and the command wrote
malformed JSON."""),

 ("json-slicer-literals", [
  (P, """    "{",
    "[",
    '"',
}""", """    "{",
    "[",
    '"',
    "-",
    "n",
    "t",
    "f",
}"""),
 ], """fix: subset-table JSON scanner skipped null, true, false and negative values

A value such as "type": null did not start with a recognised token, so the
scanner ran on to the next quote and returned the following key as part of
the value."""),

 ("validator-dup-ids", [
  (V, """                result = method(row)
                if len(result) > 0:
                    return result
        return ''
""", """                result = method(row)
                if len(result) > 0:
                    return result

        ids = [row['id'] for row in table_json['rows']]
        if len(ids) != len(set(ids)):
            return "Duplicate ids in 'rows'"
        return ''
"""),
  (V, """                result = method(col)
                if len(result) > 0:
                    return result
        return ''
""", """                result = method(col)
                if len(result) > 0:
                    return result

        ids = [col['id'] for col in table_json['columns']]
        if len(ids) != len(set(ids)):
            return "Duplicate ids in 'columns'"
        return ''
"""),
 ], """fix: validate-table accepted JSON tables with duplicate IDs

Such a file cannot be loaded (the Table constructor refuses duplicate IDs) but
was reported as valid."""),

 ("validator-hdf5-md-verdict", [
  (V, """                    error = self._valid_hdf5_metadata_v200(table)

                if error is not None:
                    report_lines.append(error)""", """                    error = self._valid_hdf5_metadata_v200(table)

                if error is not None:
                    valid_table = False
                    report_lines.append(error)"""),
  (V, """                    error = self._valid_hdf5_metadata_v210(table)

                if error is not None:
                    report_lines.append(error)""", """                    error = self._valid_hdf5_metadata_v210(table)

                if error is not None:
                    valid_table = False
                    report_lines.append(error)"""),
 ], """fix: validate-table reported HDF5 metadata errors but still said valid

A missing metadata / group-metadata group, a metadata dataset of the wrong
length or a format-version mismatch was added to the report while the verdict
stayed "valid"."""),

 ("errstate-finally", [
  (E, """    old_state = seterr(**kwargs)
    yield
    seterr(**old_state)""", """    old_state = seterr(**kwargs)
    try:
        yield
    finally:
        seterr(**old_state)"""),
 ], """fix: errstate did not restore the profile when its block raised"""),

 ("seterr-atomic", [
  (E, """            to_update = new_state.items()

        for errtype, new_state in to_update:
            if new_state not in self._valid_states:
                raise KeyError("Unknown state type: %s" % new_state)
            if errtype not in self._state:
                raise KeyError("Unknown error type: %s" % errtype)

            self._state[errtype] = new_state""", """            to_update = new_state.items()

        to_update = list(to_update)
        for errtype, new_state in to_update:
            if new_state not in self._valid_states:
                raise KeyError("Unknown state type: %s" % new_state)
            if errtype not in self._state:
                raise KeyError("Unknown error type: %s" % errtype)

        for errtype, new_state in to_update:
            self._state[errtype] = new_state"""),
 ], """fix: a refused seterr call had already changed part of the profile

Entries were applied one by one, so a call naming an unknown error type or
state raised KeyError after updating the entries that preceded it.  Validate
everything first."""),

 ("merge-other-metadata", [
  (T, """        no_md = (s_md is None) and (o_md is None)
        ignore_md""", """        no_md = (s_md is None) and (o_md is None)
        if no_md and isinstance(other, self.__class__):
            no_md = (other.metadata() is None and
                     other.metadata(axis='observation') is None)
        ignore_md"""),
 ], """fix: merge dropped the other table's metadata when self had none

The metadata-free fast path was taken whenever the receiver had no metadata,
although the default prefer_self is documented to fall back to the other
table's metadata."""),

 ("update-ids-empty-map", [
  (T, """        max_str_len = max([len(v) for v in id_map.values()])""",
   """        max_str_len = max([len(v) for v in id_map.values()], default=0)"""),
 ], """fix: update_ids with an empty mapping and strict=False raised ValueError"""),

 ("metadata-falsy-nonmapping", [
  (T, """            if {not m for m in sample_metadata} == {True, }:""",
   """            if all(m is None or (isinstance(m, dict) and not m)
                   for m in sample_metadata):"""),
  (T, """            if {not m for m in observation_metadata} == {True, }:""",
   """            if all(m is None or (isinstance(m, dict) and not m)
                   for m in observation_metadata):"""),
 ], """fix: falsy non-mapping metadata was accepted as "no metadata"

Metadata such as [0, ''] or [[], []] is not one mapping-or-None per ID, but
because every entry is falsy it was silently treated as absent instead of
being rejected like [1, 'x'] is."""),

 ("metadata-to-dataframe-order", [
  (T, """            if len(columns) > len(mcols):
                mcols = columns

        rows = []
        for m in md:
            row = []
            for key, value in m.items():
                if expand[key]:""", """            if len(columns) > len(mcols):
                mcols = columns
                mexpand = expand

        rows = []
        for m in md:
            row = []
            for key in mexpand:
                value = m[key]
                if mexpand[key]:"""),
 ], """fix: metadata_to_dataframe misplaced values when key order differed

Rows were filled in each entry's own key order under columns named after
another entry's order, so [{p:1,q:2},{q:3,p:4}] exported p=3, q=4 for the
second ID.  Fill every row in the key order that defined the columns.
(The first attempt from notes/trial-fixes.diff iterated `expand`, which holds
the key order of the *last* entry; the C19 check rejected it.)"""),

 ("collapse-empty-axis", [
  (T, """            data = self._conv_to_self_type(collapsed_data, transpose=transpose)

        # if the table is empty""", """            n_off = len(self.ids(axis=self._invert_axis(axis)))
            if collapsed_data and n_off:
                data = self._conv_to_self_type(collapsed_data,
                                               transpose=transpose)
            else:
                # nothing to aggregate (an empty axis, or no partition left):
                # keep the matrix shape in line with the IDs
                data = csr_matrix(axis_update(n_off, len(collapsed_ids)))

        # if the table is empty"""),
 ], """fix: collapse of a table with an empty axis returned an incoherent table

With no samples (or no observations) left, e.g. after a filter removed
everything on one axis, collapse() built a 0x0 matrix but still attached the
collapsed / retained IDs, so shape disagreed with the number of IDs."""),

 ("dup-test", [
  (E, """    return t.shape[0] != len(set(t.ids(axis='observation')))""",
   """    ids = t.ids(axis='observation')
    return len(ids) != len(set(ids))"""),
  (E, """    return t.shape[1] != len(set(t.ids(axis='sample')))""",
   """    ids = t.ids(axis='sample')
    return len(ids) != len(set(ids))"""),
 ], """fix: a pure ID-count mismatch was reported as duplicate IDs

The duplicate-ID tests compared the matrix dimension with the number of
distinct IDs, so 3 distinct IDs for 2 rows triggered 'obsdup' (which sorts
before 'obssize'): the message said "Duplicate observation IDs" and the
reaction configured for obssize/sampsize was not the one applied."""),
]


def sh(cmd):
    return subprocess.run(cmd, shell=True, cwd="/repo", capture_output=True,
                          text=True)


def suite():
    r = sh("/venv/bin/python -m pytest -q -p no:cacheprovider --timeout=900 "
           "--continue-on-collection-errors -n 8 2>&1 | tail -1")
    return r.stdout.strip()


def main():
    only = sys.argv[1:]
    for name, edits, msg in FIXES:
        if only and name not in only:
            continue
        for path, old, new in edits:
            s = open("/repo/" + path).read()
            if s.count(old) != 1:
                print("!! %s: pattern count %d in %s" % (name, s.count(old),
                                                         path))
                print(old)
                return 1
            open("/repo/" + path, "w").write(s.replace(old, new))
        res = suite()
        print(name, "->", res)
        import re
        m = re.search(r"(\d+) passed", res)
        f = re.search(r"(\d+) failed", res)
        nf = int(f.group(1)) if f else 0
        if not m or int(m.group(1)) + nf < 377 or nf > 5:
            print("!! suite regressed; leaving working tree for inspection")
            return 1
        r = subprocess.run(["git", "commit", "-qam", msg], cwd="/repo")
        if r.returncode:
            return 1
    return 0


if __name__ == "__main__":
    sys.exit(main())
