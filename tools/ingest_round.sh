#!/bin/bash
# tools/ingest_round.sh ROUND LETTER : confirm + file every delivered seed of a
# round, drop the scratch worktrees, run the checks against the new seeds
cd "$(dirname "$0")/.."
R=$1; L=$2
for i in $(seq -w 1 20); do /venv/bin/python tools/ingest_seed.py --round $R C$i 2>&1 | grep -E "CONFIRMED|REJECT|APPLY"; done
for i in $(seq -w 1 20); do git -C /repo worktree remove --force /tmp/w$L-c$i 2>/dev/null; done
git -C /repo worktree prune
a=$((2*R-1)); b=$((2*R))
/venv/bin/python tools/seedtest.py -k "-$a" 2>&1 | grep -E "caught|MISSED|HARN|runs"
/venv/bin/python tools/seedtest.py -k "-$b" 2>&1 | grep -E "caught|MISSED|HARN|runs"
