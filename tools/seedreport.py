#!/usr/bin/env python3
"""Markdown table of the seeded breakages for DESIGN.md section 11.
Reads seeded/*/meta.json, seeded/*/note.md and a seedtest log (stdin)."""
import json, os, re, sys
HERE = os.path.dirname(os.path.dirname(os.path.abspath(__file__)))
STRENGTHENED = json.load(open(os.path.join(HERE, "seeded", "strengthened.json")))
res = {}
for line in sys.stdin:
    m = re.match(r"^(C\d\d-\d+)\s+(C\d\d)\s+(\S+)\s+[\d.]+s\s*(.*)$", line)
    if m:
        res[m.group(1)] = (m.group(3), m.group(4).strip())
print("| change | what it breaks / what it needs to manifest | caught by (failed sub-check) | check strengthened for it |")
print("|---|---|---|---|")
for name in sorted(os.listdir(os.path.join(HERE, "seeded"))):
    d = os.path.join(HERE, "seeded", name)
    if not os.path.isdir(d):
        continue
    note = open(os.path.join(d, "note.md")).read() if os.path.exists(os.path.join(d, "note.md")) else ""
    lines = [l.strip("# *").strip() for l in note.splitlines() if l.strip()]
    head = lines[0] if lines else ""
    head = re.sub(r"^C\d\d seeded (change|bug) \d+\s*[-:–—]*\s*", "", head)
    v, sub = res.get(name, ("?", ""))
    print("| `%s` | %s | %s %s | %s |" % (name, head[:200].replace("|", "/"), v, ("`%s`" % sub[:60]) if sub else "", STRENGTHENED.get(name, "")))
