#!/usr/bin/env python3
"""Index of the seeded breakages (seeded/INDEX.md) and the summary for
DESIGN.md section 11.  Reads seeded/*/meta.json, note.md and a seedtest log
on stdin.   tools/seedtest.py | tee log ; tools/seedreport.py < log"""
import json, os, re, sys, collections
HERE = os.path.dirname(os.path.dirname(os.path.abspath(__file__)))
STRENGTHENED = json.load(open(os.path.join(HERE, "seeded", "strengthened.json")))
res = collections.defaultdict(list)
for line in sys.stdin:
    m = re.match(r"^(C\d\d-\d+)\s+(C\d\d)\s+(\S+)\s*([\d.]+s)?\s*(.*)$", line)
    if m:
        res[m.group(1)].append((m.group(2), m.group(3), m.group(5).strip()))
names = sorted((d for d in os.listdir(os.path.join(HERE, "seeded"))
                if os.path.isdir(os.path.join(HERE, "seeded", d))),
               key=lambda s: (s.split("-")[0], int(s.split("-")[1])))
rows, stats = [], collections.Counter()
for name in names:
    d = os.path.join(HERE, "seeded", name)
    meta = json.load(open(os.path.join(d, "meta.json")))
    note = open(os.path.join(d, "note.md")).read() if os.path.exists(os.path.join(d, "note.md")) else ""
    lines = [l.strip("# *").strip() for l in note.splitlines() if l.strip()]
    head = re.sub(r"^(C\d\d\s*)?(seed(ed)?\s*(change|bug)?\s*\d*|Seed\d*-?\d*|round[- ]\d+ seed \d+|change \d+)\s*(\(round \d+\))?\s*#?\d*\s*[-:–—]*\s*", "", lines[0] if lines else "", flags=re.I)
    rnd = (int(name.split("-")[1]) + 1) // 2
    if meta.get("excluded"):
        verdict = "excluded (not a violation of the statement as written)"
        stats["excluded"] += 1
    else:
        r = res.get(name, [])
        ok = [x for x in r if x[1] == "caught"]
        verdict = "; ".join("%s `%s`" % (p, sub[:50]) for p, v, sub in ok) or "NOT RUN / MISSED"
        stats["caught" if ok and len(ok) == len(r) else "missed"] += 1
        if meta.get("decided_by") and meta["property"] not in meta["decided_by"]:
            stats["decided by another property"] += 1
    rows.append("| `%s` | %d | %s | %s | %s |" % (
        name, rnd, head[:150].replace("|", "/"), verdict,
        STRENGTHENED.get(name, "caught as delivered")))
with open(os.path.join(HERE, "seeded", "INDEX.md"), "w") as f:
    f.write("# Independently seeded changes\n\nEach directory holds `patch.diff` (against the tree the round started from), "
            "`demo.py` (exit 0 on the clean tree, non-zero with the patch), `note.md` (the author's explanation) and "
            "`meta.json` (confirmation record; `decided_by`/`judgement` when the change was judged to violate another "
            "property than the one it was written for; `excluded` when it was judged not to contradict the statement).\n\n"
            "| change | round | what it breaks | reported by (failed sub-check) | what the checks needed |\n|---|---|---|---|---|\n")
    f.write("\n".join(rows) + "\n")
print("changes on file: %d" % len(names))
for k, v in sorted(stats.items()):
    print("  %s: %d" % (k, v))
