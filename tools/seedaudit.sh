#!/bin/bash
# quiet-run audit: every claimed quick check at several seeds, fresh processes
cd "$(dirname "$0")/.."
export VF_OUT=${VF_OUT:-/dev/shm/vf-seedaudit-$$}
mkdir -p "$VF_OUT"
for s in ${SEEDS:-2 3 4 5 6 7 8 9 10 11}; do
  echo "== seed $s"; VERIF_SEED=$s tools/runall.sh "$@" | grep -v " rc=0 " | cut -c1-300
done
rm -rf "$VF_OUT"
echo "audit done"
