#!/usr/bin/env python3
"""Run checks against the seeded breakages kept under /verif/seeded/<name>/.

Each directory holds patch.diff (git diff against /repo HEAD), a demonstration
and meta.json {"property": "Cxx", ...}.  The patch is applied to a scratch
copy of /repo/biom (never to /repo), the property's check is run through
VF_REPO and must report a VIOLATION.
    tools/seedtest.py [-k substr] [--tier quick] [--all-props]
"""
import argparse, json, os, shutil, subprocess, sys, tempfile, time
HERE = os.path.dirname(os.path.dirname(os.path.abspath(__file__)))

def main():
    ap = argparse.ArgumentParser()
    ap.add_argument("-k", default="")
    ap.add_argument("--tier", default="quick")
    ap.add_argument("--dir", default=os.path.join(HERE, "seeded"))
    ap.add_argument("--props", default="")
    ap.add_argument("--seed", default="1")
    ap.add_argument("--exact", action="store_true")
    a = ap.parse_args()
    base = "/dev/shm" if os.path.isdir("/dev/shm") else tempfile.gettempdir()
    rows = []
    for name in sorted(os.listdir(a.dir)):
        d = os.path.join(a.dir, name)
        if (a.exact and a.k != name) or a.k not in name or not os.path.exists(os.path.join(d, "patch.diff")):
            continue
        meta = json.load(open(os.path.join(d, "meta.json")))
        if meta.get("excluded") and not a.props:
            # confirmed to change behaviour, but judged not to contradict the
            # property as stated (see meta["excluded"])
            print("%-34s %-4s excluded" % (name, meta["property"]))
            continue
        # "decided_by": the seeded change turned out to violate another
        # property than the one it was written for (see meta["judgement"])
        props = a.props.split(",") if a.props else \
            meta.get("decided_by", [meta["property"]])
        root = tempfile.mkdtemp(prefix="vfseed-", dir=base)
        try:
            shutil.copytree("/repo/biom", os.path.join(root, "biom"),
                            ignore=shutil.ignore_patterns("__pycache__", "*.c", "*.pyx"))
            r = subprocess.run(["patch", "-p1", "-s", "-i", os.path.join(d, "patch.diff")],
                               cwd=root, capture_output=True, text=True)
            if r.returncode:
                print("%-34s PATCH FAILED %s" % (name, r.stdout[-300:] + r.stderr[-300:]))
                rows.append((name, "-", "PATCH"))
                continue
            for p in props:
                env = dict(os.environ, VF_REPO=root, VF_OUT=os.path.join(root, "out"), VERIF_SEED=a.seed)
                t0 = time.time()
                r = subprocess.run(["/venv/bin/python", "-m", "vf.check", p, "--tier", a.tier],
                                   cwd=HERE, env=env, capture_output=True, text=True)
                sub = [l for l in r.stdout.splitlines() if l.startswith("failed sub-check")]
                verdict = {0: "MISSED", 1: "caught", 2: "HARNESS-ERROR"}.get(r.returncode, "rc=%d" % r.returncode)
                rows.append((name, p, verdict))
                print("%-34s %-4s %-14s %5.1fs %s" % (name, p, verdict, time.time() - t0, sub[0][18:100] if sub else ""))
                if r.returncode == 2:
                    print(r.stdout[-1200:], r.stderr[-600:])
        finally:
            shutil.rmtree(root, ignore_errors=True)
    bad = [r for r in rows if r[2] != "caught"]
    print("\n%d runs, %d not caught" % (len(rows), len(bad)))
    return 1 if bad else 0

if __name__ == "__main__":
    sys.exit(main())
