#!/usr/bin/env python3
"""Prepare a round of the independent seeded-breakage exercise (DESIGN 11).

    tools/mkseedprompts.py ROUND LETTER
creates scratch worktrees /tmp/w<LETTER>-cNN of /repo (with the compiled
kernels copied in) and /tmp/seed<ROUND>/Cxx/prompt.txt for every property.
The prompt contains ONLY the property text, the rules of the exercise and
one-paragraph summaries of the changes earlier rounds produced (so that a new
round explores something else); nothing from the checks in /verif.
"""
import glob, json, os, shutil, subprocess, sys
HERE = os.path.dirname(os.path.dirname(os.path.abspath(__file__)))
rnd, letter = int(sys.argv[1]), sys.argv[2]
tmpl = open(os.path.join(HERE, "tools", "seedprompt.tmpl")).read()
props = [json.loads(l) for l in open(os.path.join(HERE, "properties.jsonl"))]
for p in props:
    pid = p["id"]
    nn = pid[1:].lower()
    wt = "/tmp/w%s-c%s" % (letter, nn)
    out = "/tmp/seed%d/%s" % (rnd, pid)
    os.makedirs(out, exist_ok=True)
    if not os.path.isdir(wt):
        subprocess.check_call(["git", "-C", "/repo", "worktree", "add", "-q",
                               "--detach", wt, "HEAD"])
        for so in glob.glob("/repo/biom/*.so"):
            shutil.copy(so, os.path.join(wt, "biom"))
    prev = []
    k = 1
    while os.path.isdir(os.path.join(HERE, "seeded", "%s-%d" % (pid, k))):
        n = os.path.join(HERE, "seeded", "%s-%d" % (pid, k), "note.md")
        txt = open(n).read().strip() if os.path.exists(n) else ""
        prev.append("Previous change %d (do NOT repeat this idea or a close "
                    "variant):\n%s\n" % (k, txt[:330]))
        k += 1
    text = tmpl.format(
        wt=wt, out=out, pid=pid, title=p["title"], statement=p["statement"],
        quant=p["quantifier"]["text"], why=p["why_tests_cant"],
        nprev=len(prev), prev="\n".join(prev),
        others=", ".join("/tmp/seed%d" % r for r in range(2, rnd)))
    open(os.path.join(out, "prompt.txt"), "w").write(text)
print("prepared round %d" % rnd)
