#!/usr/bin/env python3
"""Sensitivity (mutation) protocol, DESIGN 2.6.

Each mutant is a textual replacement applied to a scratch copy of /repo/biom
(never to /repo).  The named checks are run against the copy through VF_REPO
and must report a VIOLATION (exit 1).  Usage:
    tools/muttest.py [-k substring] [--tier quick] [--keep]
Mutants live in tools/mutants.py as MUTANTS = [(name, file, old, new, [props])].
"""
import argparse, os, shutil, subprocess, sys, tempfile, time
HERE = os.path.dirname(os.path.dirname(os.path.abspath(__file__)))
sys.path.insert(0, os.path.join(HERE, "tools"))

def main():
    ap = argparse.ArgumentParser()
    ap.add_argument("-k", default="")
    ap.add_argument("--tier", default="quick")
    ap.add_argument("--props", default="")
    ap.add_argument("--jobs", type=int, default=1)
    a = ap.parse_args()
    from mutants import MUTANTS
    base = "/dev/shm" if os.path.isdir("/dev/shm") else tempfile.gettempdir()
    results = []
    for name, path, old, new, props in MUTANTS:
        if a.k and a.k not in name:
            continue
        if a.props:
            props = [p for p in props if p in a.props.split(",")]
            if not props:
                continue
        root = tempfile.mkdtemp(prefix="vfmut-", dir=base)
        try:
            shutil.copytree("/repo/biom", os.path.join(root, "biom"),
                            ignore=shutil.ignore_patterns("__pycache__", "tests", "*.c", "*.pyx"))
            fp = os.path.join(root, path)
            s = open(fp).read()
            if s.count(old) != 1:
                results.append((name, "-", "PATTERN x%d" % s.count(old), 0))
                print("!! %s: pattern occurs %d times" % (name, s.count(old)))
                continue
            open(fp, "w").write(s.replace(old, new))
            for p in props:
                env = dict(os.environ, VF_REPO=root, VF_OUT=os.path.join(root, "out"))
                t0 = time.time()
                r = subprocess.run(["/venv/bin/python", "-m", "vf.check", p, "--tier", a.tier],
                                   cwd=HERE, env=env, capture_output=True, text=True)
                dt = time.time() - t0
                sub = [l for l in r.stdout.splitlines() if l.startswith("failed sub-check")]
                verdict = {0: "MISSED", 1: "caught", 2: "HARNESS-ERROR"}.get(r.returncode, "rc=%d" % r.returncode)
                results.append((name, p, verdict, dt))
                print("%-40s %-4s %-14s %5.1fs %s" % (name, p, verdict, dt, sub[0][18:90] if sub else ""))
                if r.returncode == 2:
                    print(r.stdout[-1500:], r.stderr[-1500:])
        finally:
            shutil.rmtree(root, ignore_errors=True)
    missed = [r for r in results if r[2] != "caught"]
    print("\n%d mutant runs, %d not caught" % (len(results), len(missed)))
    return 1 if missed else 0

if __name__ == "__main__":
    sys.exit(main())
