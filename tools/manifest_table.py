NOT_BUILT = {}
add("C16", "exploration", "property-based testing (Hypothesis): equal-content-by-different-route metamorphic relation + independent decoders",
    "Generated-input search: one content spec is realised through 2-3 different constructor forms / sparse layouts / content-preserving histories with read accessors interleaved; ==, !=, descriptive_equality, exports (TSV text, JSON via stdlib json, HDF5 via an independent h5py decoder) and all per-ID/per-cell queries must agree, and single-difference pairs must be unequal. Exploration is the right level: the property quantifies over an unbounded input/history space and the oracle is executable.",
    "Holds only on the generated cases (counts and class histogram in evidence).", "DESIGN.md 5/C16")
