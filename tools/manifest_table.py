NOT_BUILT = {}
add("C16", "exploration", "property-based testing (Hypothesis): equal-content-by-different-route metamorphic relation + independent decoders",
    "Generated-input search: one content spec is realised through 2-3 different constructor forms / sparse layouts / content-preserving histories with read accessors interleaved; ==, !=, descriptive_equality, exports (TSV text, JSON via stdlib json, HDF5 via an independent h5py decoder) and all per-ID/per-cell queries must agree, and single-difference pairs must be unequal. Exploration is the right level: the property quantifies over an unbounded input/history space and the oracle is executable.",
    "Holds only on the generated cases (counts and class histogram in evidence).", "DESIGN.md 5/C16")

add("C08", "exploration", "property-based testing (Hypothesis) against a dense reference model + spy predicate + exhaustive enumeration of small matrices",
    "Generated tables x histories x selectors are filtered with the real API and compared with a pure-Python dense model; a spy predicate records what the kernel hands to user code (once per ID, in order, true complete vector, id, metadata); predicate-vs-ID-list metamorphic check; remove_empty/head/unknown-id clauses. Every matrix over {0,1,2} up to 2x3 (quick) / 3x3 (thorough) x subset x invert x axis x inplace is enumerated exhaustively.",
    "Holds on the generated and enumerated cases only.", "DESIGN.md 5/C08")
add("C06", "exploration", "property-based testing (Hypothesis): relational oracle + round trips + exhaustive permutations of small axes",
    "For sort_order/sort/align_to/transpose/copy/update_ids the result is compared relationally with a deep snapshot of the receiver (every (obs,samp) value, per-ID metadata, exact order, bijection of IDs); perm+inverse and transpose twice must restore the snapshot; refused renamings must leave the receiver unchanged. All permutations of each axis for shapes up to 4x4 are enumerated.",
    "Holds on the generated and enumerated cases only.", "DESIGN.md 5/C06")
add("C07", "exploration", "property-based testing (Hypothesis): before/after deep snapshots, object identity, aliasing battery",
    "Every operation of the alphabet is run with inplace=False (or is a new-table operation) on generated tables x histories; deep snapshots of receiver and argument tables must be unchanged by the call and by a battery of in-place edits of every returned table; the inplace=True variant on a fresh copy must return the receiver and leave it equal to the inplace=False result.",
    "'In-place changes to the result' means mutating table operations, not mutation of nested metadata value objects.", "DESIGN.md 5/C07")
add("C05", "exploration", "model-based / stateful property testing (Hypothesis operation sequences) + exhaustive bounded-depth sequence enumeration",
    "Sequences of 1..10 operations from the full public alphabet are applied to generated start tables; after every step the coherence invariant (shape vs IDs, unique IDs, index/exists incl. stale IDs, metadata length, and every accessor vs the dense matrix of a deep copy) is checked on the result, the receiver and argument tables. All sequences up to depth 2 (quick) / 3 (thorough) over 41 concrete operation instances on 3 start tables are enumerated.",
    "Operations are applied only inside their documented domain; refusals on empty tables are tolerated.", "DESIGN.md 5/C05")

add("C01", "exploration", "property-based testing (Hypothesis): write -> read round trip against a deep snapshot",
    "HDF5-domain tables (any finite float64, full-Unicode IDs, homogeneous metadata categories incl. '/' in names, group metadata, drawn creation dates) x construction form x history x compress x writer x reader are written and loaded back; IDs, bit-identical values, metadata, type, table id placeholder, generated-by, creation date and group-metadata payloads are compared field by field.",
    "Holds on generated cases only; h5py trusted.", "DESIGN.md 5/C01")
add("C04", "exploration", "property-based testing (Hypothesis) with an independent decoder written from the BIOM 2.1 specification (raw h5py)",
    "Every generated table (C01 domain plus empty-axis and all-zero tables, all layouts/histories) is written by to_hdf5 / save_table / convert --to-hdf5 and decoded by vf/h5spec.py, which imports nothing from biom: required attributes/groups/datasets and element types, shape, nnz, indptr length/monotonicity/end, index ranges, no stored zeros, CSR and CSC copies each equal to the table's matrix, IDs and metadata datasets per ID in axis order.",
    "The decoder reads the offset-array lengths with the CSR/CSC meaning (the rst prints them swapped).", "DESIGN.md 5/C04")
add("C02", "exploration", "property-based testing (Hypothesis): stdlib json as independent parser + expected-document oracle + read-back round trip + streamed-vs-returned differential",
    "Generated tables with arbitrary-Unicode IDs/strings, arbitrary JSON-representable and numpy metadata and any finite float64 values are written with to_json (returned and direct_io forms); the text must parse with json.loads, equal the expected document field by field (triples = exactly the non-zero cells with == values), read back identically through five reader entry points, and the streamed form must be the same JSON document.",
    "Holds on generated cases only.", "DESIGN.md 5/C02")

add("C03", "exploration", "property-based testing (Hypothesis): export -> import round trip through API and `biom convert`",
    "Generated tables with TSV-safe but otherwise arbitrary IDs (numeric-looking, spaced, non-ASCII), any finite float64 and an optional exported observation-metadata category are exported (to_tsv, str, direct_io, convert --to-tsv) and re-imported (list of lines, handle, path, gzip path, readlines, convert --to-json/--to-hdf5 --process-obs-metadata); IDs in order, exact values and the category after the inverse processing function must be preserved.",
    "The text handed to the importer is exactly the exporter's output.", "DESIGN.md 5/C03")
add("C14", "exploration", "property-based testing (Hypothesis): differential subset-on-read vs read-then-filter in a reference model",
    "For generated files (HDF5 and JSON written by the library) every subset-on-read variant (from_hdf5 with and without metadata, parse_table(ids=), subset-table -i, subset-table -j on compact/spaced/indented re-serialisations) is compared with loading everything and filtering in the dense model (then dropping all-zero other-axis vectors where documented); requests naming an unknown ID must be refused.",
    "Holds on generated cases only.", "DESIGN.md 5/C14")
