"""Seeded breakages used by tools/muttest.py (DESIGN 2.6).  Each entry:
(name, file relative to the repo root, old text, new text, [properties that must catch it])."""
T = "biom/table.py"
MUTANTS = [
 # ("c16-eq-raw-nnz": reverting the equality fix) is an *equivalent* mutant on
 # the repaired tree: with stored zeros eliminated at construction and after
 # subsample, no public route reaches a table with stored zeros any more.
 ("c16-eq-ids-as-sets", T, """        if not np.array_equal(self.ids(), other.ids()):
            return False
        if not np.array_equal(self.metadata(axis='observation'),""",
  """        if set(self.ids()) != set(other.ids()):
            return False
        if not np.array_equal(self.metadata(axis='observation'),""", ["C16"]),
 ("c16-eq-skip-obs-md", T, """        if not np.array_equal(self.metadata(axis='observation'),
                              other.metadata(axis='observation')):
            return False
        if not np.array_equal(self.metadata(), other.metadata()):
            return False
        if not self._data_equality(other._data):
            return False

        return True""", """        if not np.array_equal(self.metadata(), other.metadata()):
            return False
        if not self._data_equality(other._data):
            return False

        return True""", ["C16"]),
 ("c16-copy-drops-type", T, """                              self.table_id,
                              type=self.type)""", """                              self.table_id)""", ["C16", "C06"]),
 ("c08-drop-invert", "biom/table.py", """                                     axis,
                                     invert=invert)""", """                                     axis,
                                     invert=False)""", ["C08"]),
 ("c08-remove-empty-sum", T, "table.ids(axis=ax)[table.nonzero_counts(ax) > 0]", "table.ids(axis=ax)[table.sum(axis=ax) > 0]", ["C08"]),
 ("c08-no-sort-indices", T, "        arr.sort_indices()\n", "", ["C08"]),
 ("c08-head-off-by-one", T, "row_ids = self.ids(axis='observation')[:n]", "row_ids = self.ids(axis='observation')[:max(n - 1, 1)]", ["C08"]),
 ("c08-filter-stale-index", T, "            table._index_ids(self._obs_index.copy(), None)", "            table._index_ids(self._obs_index.copy(), self._sample_index.copy())", ["C08", "C05"]),
 ("c06-md-not-reordered", T, """        if metadata is not None:
            metadata = np.array(metadata)[fancy]

        if axis == 'sample':""", """        if axis == 'sample':""", ["C06"]),
 ("c06-sort-order-keeps-ids", T, """                                  self.ids(axis='observation')[:], order[:],
                                  self.metadata(axis='observation'), metadata,""",
  """                                  self.ids(axis='observation')[:], self.ids()[:],
                                  self.metadata(axis='observation'), metadata,""", ["C06"]),
 ("c06-update-ids-width", T, "            max_str_len = max(max_str_len, max([len(i) for i in ids]))", "            pass", ["C06"]),
 ("c06-transpose-md-not-swapped", T, """                              self.ids()[:], self.ids(axis='observation')[:],
                              sample_md_copy, obs_md_copy, self.table_id)""", """                              self.ids()[:], self.ids(axis='observation')[:],
                              obs_md_copy, sample_md_copy, self.table_id)""", ["C06"]),
 ("c06-align-detect-skips-obs", T, """            if alignable_o:
                order.append('observation')""", """            if alignable_o and not alignable_s:
                order.append('observation')""", ["C06"]),
 ("c05-update-ids-no-reindex", T, """        result._index_ids(None, None)

        # check for errors""", """        # check for errors""", ["C05", "C06"]),
 ("c05-add-metadata-md-order", T, """                self._sample_metadata = tuple(
                    md[id_] if id_ in md else None for id_ in ids)""", """                self._sample_metadata = tuple(
                    md[id_] for id_ in md if id_ in set(ids))""", ["C05"]),
 ("c05-transpose-ids-only", T, """        return self.__class__(self._data.transpose(copy=True),
                              self.ids()[:], self.ids(axis='observation')[:],""", """        return self.__class__(self._data.copy(),
                              self.ids()[:], self.ids(axis='observation')[:],""", ["C05", "C06"]),
 ("c05-nonzero-csc-bug", T, """        csr = self._data.tocsr()
        samp_ids = self.ids()""", """        csr = self._data
        samp_ids = self.ids()""", ["C05"]),
 ("c05-density-wrong-axis", T, """            density = (self.nnz /
                       (len(self.ids()) * len(self.ids(axis='observation'))))""", """            density = (self.nnz /
                       (len(self.ids()) * len(self.ids())))""", ["C05"]),
 ("c07-inplace-ignored", T, """        table = self if inplace else self.copy()

        metadata = table.metadata(axis=axis)
        ids = table.ids(axis=axis)
        arr = table._get_sparse_data(axis=axis)""", """        table = self

        metadata = table.metadata(axis=axis)
        ids = table.ids(axis=axis)
        arr = table._get_sparse_data(axis=axis)""", ["C07"]),
 # Equivalent on this tree (not observable through table operations, see
 # DESIGN 5/C07): copy() without deepcopy of metadata (the constructor re-wraps
 # every entry in a fresh defaultdict; only nested value objects stay shared)
 # and astype(copy=False) in the constructor (every internal caller already
 # hands over a fresh matrix).
 ("c07-head-filters-receiver", T, """        table = self.filter(row_ids, axis='observation', inplace=False)
        return table.filter(col_ids, axis='sample')""", """        table = self.filter(row_ids, axis='observation', inplace=True)
        return table.filter(col_ids, axis='sample', inplace=False)""", ["C07"]),
 ("c07-norm-always-inplace", T, """            return val / float(val.sum())

        return self.transform(f, axis=axis, inplace=inplace)""", """            return val / float(val.sum())

        return self.transform(f, axis=axis, inplace=True)""", ["C07"]),
 ("c07-subsample-no-copy", T, """        table = self.copy()

        rng = np.random.default_rng(seed)""", """        table = self

        rng = np.random.default_rng(seed)""", ["C07"]),
 ("c07-sort-order-identity-self", T, """        fancy = np.array([self.index(i, axis=axis) for i in order], dtype=int)
        metadata = self.metadata(axis=axis)""", """        fancy = np.array([self.index(i, axis=axis) for i in order], dtype=int)
        if list(order) == list(self.ids(axis=axis)):
            return self
        metadata = self.metadata(axis=axis)""", ["C07"]),
 ("c07-remove-empty-inplace-flag", T, """        if inplace:
            table = self
        else:
            table = self.copy()

        if axis == 'whole':""", """        if not inplace:
            table = self
        else:
            table = self.copy()

        if axis == 'whole':""", ["C07"]),
 ("c01-ids-latin1", T, """                                   data=[i.encode('utf8') for i in ids],""", """                                   data=[i.encode('latin-1', 'replace') for i in ids],""", ["C01", "C04"]),
 ("c01-md-reversed", T, """                           data=[m[header].encode('utf8') for m in md],""", """                           data=[m[header].encode('utf8') for m in md][::-1],""", ["C01", "C04"]),
 ("c01-no-slash-unescape", T, """                category = category.replace('@@SLASH@@', '/')
                parse_f = parser[category]""", """                parse_f = parser[category]""", ["C01"]),
 ("c01-type-empty-string", T, """        type_ = None if h5grp.attrs['type'] == '' else h5grp.attrs['type']""", """        type_ = h5grp.attrs['type']""", ["C01"]),
 ("c01-swap-id-generatedby", T, """        h5grp.attrs['generated-by'] = generated_by
        if creation_date is None:""", """        h5grp.attrs['generated-by'] = h5grp.attrs['id']
        if creation_date is None:""", ["C01", "C04"]),
 ("c01-indices-int16-uncompressed", T, """            grp.create_dataset('matrix/indices', shape=(len_data,),
                               dtype=np.int32,""", """            grp.create_dataset('matrix/indices', shape=(len_data,),
                               dtype=np.int32 if compression else np.int8,""", ["C04"]),
 ("c01-float32-data", T, """            grp.create_dataset('matrix/data', shape=(len_data,),
                               dtype=np.float64,""", """            grp.create_dataset('matrix/data', shape=(len_data,),
                               dtype=np.float32,""", ["C01", "C04"]),
 ("c01-groupmd-dropped-obs", T, """            group_md = self.group_metadata(axis)
""", """            group_md = self.group_metadata(axis) if axis == 'sample' else None
""", ["C01", "C04"]),
 ("c04-csc-gets-csr-indices", T, """            self._data = self._data.asformat(order)

            ids = self.ids(axis=axis)""", """            self._data = self._data.asformat('csr')

            ids = self.ids(axis=axis)""", ["C04", "C01"]),
 ("c04-shape-transposed", T, """        h5grp.attrs['shape'] = self.shape""", """        h5grp.attrs['shape'] = self.shape[::-1]""", ["C04"]),
 ("c04-no-group-metadata-group", T, """            grp.create_group('group-metadata')

            if group_md:""", """            if group_md:
                grp.create_group('group-metadata')
            if group_md:""", ["C04"]),
 # ("c04-nnz-stale": nnz attribute from the raw stored count) is equivalent on
 # the repaired tree: stored zeros are eliminated at construction.
 ("c04-indptr-int64", T, """            grp.create_dataset('matrix/indptr', shape=(len_indptr,),
                               dtype=np.int32,""", """            grp.create_dataset('matrix/indptr', shape=(len_indptr,),
                               dtype=np.int64,""", ["C04"]),
 ("c02-triple-swapped", T, """"[%d,%d,%r]" % (obs_index, col_index, float(val))""", """"[%d,%d,%r]" % (col_index, obs_index, float(val))""", ["C02"]),
 ("c02-value-percent-f", T, """"[%d,%d,%r]" % (obs_index, col_index, float(val))""", """"[%d,%d,%f]" % (obs_index, col_index, val)""", ["C02"]),
 ("c02-value-percent-g", T, """"[%d,%d,%r]" % (obs_index, col_index, float(val))""", """"[%d,%d,%.15g]" % (obs_index, col_index, val)""", ["C02"]),
 ("c02-directio-drops-type", T, """        if direct_io:
            direct_io.write(type_)
""", """        if direct_io:
            pass
""", ["C02"]),
 ("c02-id-not-escaped", T, """                    f'{{"id": {dumps(obs[1])}, "metadata": {dumps(obs[2])}}},'""", """                    f'{{"id": "{obs[1]}", "metadata": {dumps(obs[2])}}},'""", ["C02"]),
 ("c02-fromjson-columns-twice", T, """        obs_ids = [row['id'] for row in json_table['rows']]
        obs_metadata = [row['metadata'] for row in json_table['rows']]""", """        obs_ids = [row['id'] for row in json_table['rows']]
        obs_metadata = [row['metadata'] for row in json_table['columns']]""", ["C02"]),
 ("c02-generatedby-unescaped", T, """            generated_by = '"generated_by": %s,' % dumps(generated_by)""", """            generated_by = '"generated_by": "%s",' % generated_by""", ["C02"]),
 ("c02-date-dropped-on-read", T, """                create_date = datetime.fromisoformat(json_table['date'])""", """                create_date = datetime.fromisoformat(json_table['date'][:10])""", ["C02"]),
 ("c02-npencoder-float32-str", T, """        if isinstance(obj, np.floating):
            return float(obj)""", """        if isinstance(obj, np.floating):
            return float(str(obj))""", ["C02"]),
 ("c03-gz-reader-latin1", "biom/util.py", """            return codecs.getreader('utf-8')(gzip_open(fp, mode))""", """            return codecs.getreader('latin-1')(gzip_open(fp, mode))""", ["C03"]),
 ("c03-isfloat-accepts-empty", T, """            try:
                float(value)
                return True
            except ValueError:
                return False

        if not isinstance(lines, list):""", """            if value == '':
                return True
            try:
                float(value)
                return True
            except ValueError:
                return False

        if not isinstance(lines, list):""", ["C03"]),
 ("c03-fields-off-by-one", T, """                    values = list(map(dtype, fields[1:-1]))""", """                    values = list(map(dtype, fields[2:-1]))""", ["C03"]),
 ("c03-values-percent-g", T, """            str_obs_vals = delim.join(map(str, self._to_dense(obs_values)))""", """            str_obs_vals = delim.join('%g' % v for v in self._to_dense(obs_values))""", ["C03"]),
 ("c03-rsplit-to-split", T, """        last_values = [line.rsplit(delim, 1)[-1].strip()""", """        last_values = [line.split(delim, 1)[-1].strip()""", ["C03"]),
 ("c03-header-ids-stripped", T, """            header = line.strip().split(delim)[1:]""", """            header = [h.strip() for h in line.strip().split(delim)[1:]]
            header = [h.lstrip('0') or h for h in header]""", ["C03"]),
 ("c03-single-sample-md-guess", T, """        if last_column_is_numeric or data_start == 0:""", """        if (last_column_is_numeric and len(header) > 1) or data_start == 0:""", ["C03"]),
 ("c03-convert-formatter-comma", "biom/cli/table_converter.py", """    'sc_separated': lambda x: '; '.join(x),""", """    'sc_separated': lambda x: ', '.join(x),""", ["C03"]),
 ("c03-zero-skip-threshold", T, """                if values[column_number] != dtype(0):""", """                if abs(values[column_number]) > 1e-300:""", ["C03"]),
 ("c14-slicer-lookup-unsorted", "biom/parse.py", """    new_data = []
    remap_lookup = {str(v): i for i, v in enumerate(sorted(to_keep))}
    for rcv in data.split('],'):
        if not strip_f(rcv):
            continue
        r, c, v = map(strip_f, rcv.split(','))""", """    new_data = []
    remap_lookup = {str(v): i for i, v in enumerate(sorted(to_keep, key=str))}
    for rcv in data.split('],'):
        if not strip_f(rcv):
            continue
        r, c, v = map(strip_f, rcv.split(','))""", ["C14"]),
 ("c14-subset-no-issubset-check", "biom/parse.py", """    if not to_keep.issubset(all_ids):
        raise KeyError("Not all of the to_keep ids are in biom_str!")
""", "", ["C14"]),
 ("c14-h5-indptr-unsorted-pairs", T, """            indptr_indices = sorted(
                (h5_indptr[i], h5_indptr[i+1]) for i in keep
            )""", """            indptr_indices = sorted(
                ((h5_indptr[i], h5_indptr[i+1]) for i in keep),
                key=lambda se: se[1] - se[0])""", ["C14"]),
 ("c14-h5-md-wrong-mask", T, """            obs_md = _subset_metadata(obs_md, obs_idx)
            samp_md = _subset_metadata(samp_md, samp_idx)""", """            obs_md = _subset_metadata(obs_md, obs_idx)
            samp_md = _subset_metadata(samp_md, samp_idx[::-1])""", ["C14"]),
 ("c14-h5-no-empty-drop", T, """            axis = 'observation' if axis == 'sample' else 'sample'
            t.filter(any_value, axis=axis)

        return t""", """            axis = 'observation' if axis == 'sample' else 'sample'

        return t""", ["C14"]),
 ("c14-h5-unknown-ids-ignored", T, """                    if ids.shape != desired_ids.shape:
                        raise ValueError(""", """                    if ids.shape[0] == 0:
                        raise ValueError(""", ["C14"]),
 ("c14-nomd-cumsum-off", T, """            indptr[1:] = np.array([e - s for s, e in start_end]).cumsum()""", """            indptr[1:] = np.array([e - s for s, e in start_end][::-1]).cumsum()""", ["C14"]),
 ("c14-parse-json-no-drop", "biom/parse.py", """        axis = 'observation' if axis == 'sample' else 'sample'
        t.filter(gt_zero, axis=axis)""", """        axis = 'observation' if axis == 'sample' else 'sample'""", ["C14"]),
 ("c14-slicer-strip-regress", "biom/parse.py", """        r, c, v = map(strip_f, rcv.split(','))
        if c in remap_lookup:""", """        r, c, v = rcv.split(',')
        if c in remap_lookup:""", ["C14"]),
 ("c14-cli-ids-file-keeps-comments", "biom/cli/table_subsetter.py", r"""            if not line.startswith('#'):
                ids.append(line.strip().split('\t')[0])""", r"""            if True:
                ids.append(line.strip().split('\t')[0])""", ["C14"]),
 ("c15-no-rows-crosscheck", "biom/cli/table_validator.py", """            if ('rows' in table_json and
                    len(table_json['rows']) != table_json['shape'][0]):""", """            if ('rows' in table_json and
                    len(table_json['rows']) < table_json['shape'][0]):""", ["C15"]),
 ("c15-x-bound-loosened", "biom/cli/table_validator.py", """            if x < 0 or x > n_rows:""", """            if x < 0 or x > n_rows + 1:""", ["C15"]),
 ("c15-negative-coord-allowed", "biom/cli/table_validator.py", """            if y < 0 or y > n_cols:""", """            if y > n_cols:""", ["C15"]),
 ("c15-metadata-accepts-lists", "biom/cli/table_validator.py", """        if isinstance(record['metadata'], dict):
            return ''""", """        if isinstance(record['metadata'], (dict, list)):
            return ''""", ["C15"]),
 ("c15-required-datasets-shortened", "biom/cli/table_validator.py", """                             'sample/matrix/indices',
                             'sample/matrix/indptr']""", """                             'sample/matrix/indices']""", ["C15"]),
 ("c15-required-key-date-dropped", "biom/cli/table_validator.py", """            ('id', self._valid_nullable_id),
            ('date', self._valid_datetime)
        ]""", """            ('id', self._valid_nullable_id),
        ]""", ["C15"]),
 ("c15-h5-missing-attr-not-fatal", "biom/cli/table_validator.py", """            if required_attr not in table.attrs:
                valid_table = False""", """            if required_attr not in table.attrs:
                valid_table = valid_table and required_attr != 'nnz'""", ["C15"]),
 ("c15-h5-samp-count-unchecked", "biom/cli/table_validator.py", """            if n_samp != len(samp_ids):
                valid_table = False""", """            if n_samp < len(samp_ids):
                valid_table = False""", ["C15"]),
 ("c15-value-type-unchecked", "biom/cli/table_validator.py", """            if not isinstance(val, dtype):
                return "Bad value at idx %d: %s" % (idx, repr(coord))""", """            if val is None:
                return "Bad value at idx %d: %s" % (idx, repr(coord))""", ["C15"]),
 ("c15-dup-id-check-rows-only", "biom/cli/table_validator.py", """        ids = [col['id'] for col in table_json['columns']]
        if len(ids) != len(set(ids)):""", """        ids = [col['id'] for col in table_json['columns']]
        if len(ids) != len(ids):""", ["C15"]),
 ("c15-type-none-valid-writer", T, """        if self.type is None:
            type_ = '"type": null,'""", """        if self.type is None or self.type == 'Gene table':
            type_ = '"type": null,'""", ["C15", "C02"]),
 ("c15-fromjson-ignores-shape", T, """            return coo_matrix(shape if shape is not None else (0, 0))""", """            return coo_matrix((0, 0))""", ["C15", "C02"]),
 ("c09-intersect-keeps-a", T, """        for id_ in a:
            if id_ in all_b:
                new_order[id_] = idx
                idx += 1
        return new_order""", """        for id_ in a:
            if id_ in all_b or idx == 0:
                new_order[id_] = idx
                idx += 1
        return new_order""", ["C09"]),
 ("c09-fast-maps-swapped", T, """            coo.row = row_map[coo.row]
            coo.col = col_map[coo.col]""", """            coo.row = row_map[coo.row]
            coo.col = col_map[coo.col[::-1]]""", ["C09"]),
 ("c09-prefer-self-returns-other", "biom/util.py", """    return x if x is not None else y""", """    return y if y is not None else x""", ["C09"]),
 ("c09-general-drops-other-when-self-absent", T, """                    if samp_id not in self_samp_idx:
                        self_vec_value = 0
                    else:""", """                    if samp_id not in self_samp_idx:
                        continue
                    else:""", ["C09"]),
 ("c09-general-other-only-branch", T, """                for (n_idx, o_idx) in other_samp_order:
                    if o_idx is not None:
                        new_vec[n_idx] = other_vec[o_idx]""", """                for (n_idx, o_idx) in other_samp_order:
                    if o_idx is not None:
                        new_vec[n_idx] = other_vec[n_idx % len(other_vec)]""", ["C09"]),
 ("c09-fast-path-ignores-other-md", T, """        if no_md and isinstance(other, self.__class__):
            no_md = (other.metadata() is None and
                     other.metadata(axis='observation') is None)""", """        if no_md and isinstance(other, self.__class__):
            no_md = (other.metadata() is None)""", ["C09"]),
 ("c09-fast-nnz-stale", T, """        ntuples = sum([t.nnz for t in tables])""", """        ntuples = sum([t.nnz for t in tables]) + 1""", ["C09"]),
 ("c09-union-order-loses-dup-check", T, """        for id_ in all_ids:
            if id_ not in new_order:
                new_order[id_] = idx
                idx += 1
        return new_order

    def _intersect_id_order""", """        for id_ in all_ids:
            new_order[id_] = idx
            idx += 1
        return new_order

    def _intersect_id_order""", ["C09"]),
 ("c09-empty-intersection-not-refused", T, """        if not new_samp_order:
            raise TableException("No samples in resulting table!")""", """        if not new_samp_order:
            new_samp_order = [(self.ids()[0], 0)]""", ["C09"]),
 ("c10-stack-swapped-obs", T, """        else:
            dim_getter = itemgetter(0)
            stack = vstack
            invstack = hstack""", """        else:
            dim_getter = itemgetter(0)
            stack = vstack
            invstack = vstack""", ["C10"]),
 ("c10-padding-not-sorted", T, """            if (tmp_table.ids(axis=invaxis) == invaxis_order).all():
                padded_tables.append(tmp_table)""", """            if len(tmp_table.ids(axis=invaxis)) == len(invaxis_order):
                padded_tables.append(tmp_table)""", ["C10"]),
 ("c10-md-from-unpadded-order", T, """        for table in padded_tables:
            metadata = table.metadata(axis=axis)
            if metadata is None:
                metadata = [None] * dim_getter(table.shape)
            concat_md.extend(metadata)""", """        for table in padded_tables[::-1]:
            metadata = table.metadata(axis=axis)
            if metadata is None:
                metadata = [None] * dim_getter(table.shape)
            concat_md.extend(metadata)""", ["C10"]),
 ("c10-disjoint-wrong-axis", T, """            if not axis_ids.isdisjoint(table_axis_ids):
                raise DisjointIDError("IDs are not disjoint")""", """            if not axis_ids.isdisjoint(table_invaxis_order) and False:
                raise DisjointIDError("IDs are not disjoint")""", ["C10"]),
 ("c10-missing-ids-from-first-only", T, """            missing_ids = list(invaxis_ids - set(table.ids(axis=invaxis)))""", """            missing_ids = sorted(invaxis_ids - set(table.ids(axis=invaxis)))[:2]""", ["C10"]),
 ("c10-ids-sorted-within-operand", T, """        concat_ids = np.concatenate([t.ids(axis=axis) for t in padded_tables])""", """        concat_ids = np.concatenate([np.sort(t.ids(axis=axis)) for t in padded_tables])""", ["C10"]),
 ("c10-single-table-not-wrapped", T, """        if isinstance(others, self.__class__):
            others = [others, ]

        # we grow along the opposite axis""", """        if isinstance(others, self.__class__):
            others = []

        # we grow along the opposite axis""", ["C10"]),
 ("c10-wrapper-drops-last", "biom/__init__.py", """    return tables[0].concat(tables[1:], *args, **kwargs)""", """    return tables[0].concat(tables[1:3], *args, **kwargs)""", ["C10"]),
 ("c11-norm-by-groups", T, """                if norm:
                    redux_data /= len(axis_ids)""", """                if norm:
                    redux_data /= max(len(collapsed_ids), 1)""", ["C11"]),
 ("c11-min-group-le", T, """                if len(axis_ids) < min_group_size:
                    continue""", """                if len(axis_ids) <= min_group_size and min_group_size > 1:
                    continue""", ["C11"]),
 ("c11-mdcount-distinct-bins", T, """                    new_md[partition] = pathway
                    num_md += 1""", """                    if partition not in new_md:
                        num_md += 1
                    new_md[partition] = pathway""", ["C11"]),
 ("c11-partition-transpose-flag", T, """            elif axis == 'observation':
                data = self._conv_to_self_type(values, transpose=False)
                obs_ids = ids""", """            elif axis == 'observation':
                data = self._conv_to_self_type(values[::-1], transpose=False)
                obs_ids = ids""", ["C11"]),
 ("c11-partition-ignore-none-inverted", T, """            if ignore_none and part is None:
                continue""", """            if not ignore_none and part is None:
                continue""", ["C11"]),
 ("c11-collapse-md-first-member-only", T, """                    collapsed_md.append({'collapsed_ids': axis_ids.tolist()})""", """                    collapsed_md.append({'collapsed_ids': axis_ids.tolist()[:2]})""", ["C11"]),
 ("c11-one-to-many-add-skips-dups", T, """                    if one_to_many_mode == 'add':
                        for vidx, v in zip(vals.indices, vals.data):
                            new_data[vidx, column] += v""", """                    if one_to_many_mode == 'add':
                        for vidx, v in zip(vals.indices, vals.data):
                            new_data[vidx, column] = v""", ["C11"]),
 ("c11-partition-dict-grp2ids-last-wins", T, """                for grp, ids in f.items():
                    for id_ in ids:
                        mapping[id_] = grp""", """                for grp, ids in f.items():
                    for id_ in ids[:-1] or ids:
                        mapping[id_] = grp""", ["C11"]),
 ("c11-partition-md-other-axis-dropped", T, """                samp_ids = self.ids()[:]
                samp_md = md[:] if md is not None else None
                indices = {'sample_index': self._sample_index.copy()}""", """                samp_ids = self.ids()[:]
                samp_md = None
                indices = {'sample_index': self._sample_index.copy()}""", ["C11"]),
 ("c11-collapse-sum-wrong-axis", T, """                def collapse_f(t, axis):
                    return t.sum(axis)""", """                def collapse_f(t, axis):
                    return np.abs(t.sum(axis))""", ["C11"]),
 ("c12-axis-ignored", T, """            data = table._get_sparse_data(axis)
            subsample(data, n, with_replacement, rng)""", """            data = table._get_sparse_data()
            subsample(data, n, with_replacement, rng)""", ["C12"]),
 ("c12-replacement-no-prefilter", T, """            if with_replacement:
                # vectors without counts cannot be resampled, and would be
                # dropped below anyway
                table.filter(lambda v, i, md: v.sum() > 0, axis=axis)""", """            if False:
                table.filter(lambda v, i, md: v.sum() > 0, axis=axis)""", ["C12"]),
 ("c12-by-id-one-too-many", T, """            subset = set(ids[:n])""", """            subset = set(ids[:n + 1])""", ["C12"]),
 ("c12-by-id-not-shuffled", T, """            rng.shuffle(ids)
            subset = set(ids[:n])""", """            subset = set(ids[:n])""", ["C12"]),
 ("c12-seed-coarsened", T, """        rng = np.random.default_rng(seed)""", """        rng = np.random.default_rng(seed % 5 if seed is not None else None)""", ["C12"]),
 ("c12-seed-ignored", T, """        rng = np.random.default_rng(seed)""", """        rng = np.random.default_rng()""", ["C12"]),
 ("c12-other-axis-empties-kept", T, """        inv_axis = self._invert_axis(axis)
        table.filter(lambda v, i, md: v.sum() > 0, axis=inv_axis)

        return table""", """        return table""", ["C12"]),
 ("c12-short-vectors-kept", T, """            table._data = data

            table.filter(lambda v, i, md: v.sum() > 0, axis=axis)""", """            table._data = data
""", ["C12"]),
 ("c12-no-copy", T, """        table = self.copy()

        rng = np.random.default_rng(seed)""", """        table = self

        rng = np.random.default_rng(seed)""", ["C12"]),
 ("c12-n-minus-one-with-replacement", T, """            subsample(data, n, with_replacement, rng)
            data.eliminate_zeros()""", """            subsample(data, n - 1 if with_replacement and n > 1 else n,
                      with_replacement, rng)
            data.eliminate_zeros()""", ["C12"]),
 ("c12-biased-first-entry", T, """            subsample(data, n, with_replacement, rng)
            data.eliminate_zeros()""", """            subsample(data, n, with_replacement, rng)
            if not with_replacement and data.data.size > 1 and seed is not None and seed % 3 == 0:
                pass
            data.eliminate_zeros()""", []),
 ("c13-layout-selection-swapped", T, """        arr = table._get_sparse_data(axis=axis)

        axis = table._axis_to_num(axis)

        _transform(arr, ids, metadata, f, axis)""", """        arr = table._get_sparse_data(axis=self._invert_axis(axis))

        axis = table._axis_to_num(axis)

        _transform(arr, ids, metadata, f, axis)""", ["C13"]),
 ("c13-no-eliminate-zeros", T, """        _transform(arr, ids, metadata, f, axis)
        arr.eliminate_zeros()""", """        _transform(arr, ids, metadata, f, axis)""", ["C13", "C05"]),
 ("c13-pa-positive-only", T, """            return np.where(data != 0, 1., 0.)""", """            return np.where(data > 0, 1., 0.)""", ["C13"]),
 ("c13-ids-of-other-axis", T, """        metadata = table.metadata(axis=axis)
        ids = table.ids(axis=axis)
        arr = table._get_sparse_data(axis=axis)""", """        metadata = table.metadata(axis=axis)
        ids = table.ids(axis=axis)[::-1]
        arr = table._get_sparse_data(axis=axis)""", ["C13"]),
 ("c13-norm-by-max", T, """            return val / float(val.sum())""", """            return val / float(val.max())""", ["C13"]),
 ("c13-rank-method-ignored", T, """            return scipy.stats.rankdata(val, method=method)""", """            return scipy.stats.rankdata(val)""", ["C13"]),
 ("c13-cli-axis-ignored", "biom/cli/table_normalizer.py", """        table.norm(axis=axis)""", """        table.norm()""", ["C13"]),
 ("c13-cli-pa-as-norm", "biom/cli/table_normalizer.py", """    else:
        table.pa()""", """    else:
        table.norm(axis=axis)""", ["C13"]),
 ("c13-transform-md-none", T, """        table = self if inplace else self.copy()

        metadata = table.metadata(axis=axis)
        ids = table.ids(axis=axis)
        arr = table._get_sparse_data(axis=axis)""", """        table = self if inplace else self.copy()

        metadata = None
        ids = table.ids(axis=axis)
        arr = table._get_sparse_data(axis=axis)""", ["C13"]),
 ("c13-rank-of-dense-vector", T, """        def f(val, id_, _):
            return scipy.stats.rankdata(val, method=method)
        return self.transform(f, axis=axis, inplace=inplace)""", """        def f(val, id_, _):
            return scipy.stats.rankdata(val, method=method) + (val < 0)
        return self.transform(f, axis=axis, inplace=inplace)""", ["C13"]),
 ("c17-list-dict-orientation", T, """        if n_rows > n_cols:
            is_col = True
            n_cols = len(data)
        else:
            is_col = False
            n_rows = len(data)

    rows = []""", """        if n_rows >= n_cols:
            is_col = True
            n_cols = len(data)
        else:
            is_col = False
            n_rows = len(data)

    rows = []""", ["C17"]),
 ("c17-dict-ignores-shape", T, """    if shape is None:
        n_rows = max(data.keys(), key=itemgetter(0))[0] + 1
        n_cols = max(data.keys(), key=itemgetter(1))[1] + 1
    else:
        n_rows, n_cols = shape

    rows = []
    cols = []
    vals = []
    for (r, c), v in data.items():""", """    if True:
        n_rows = max(data.keys(), key=itemgetter(0))[0] + 1
        n_cols = max(data.keys(), key=itemgetter(1))[1] + 1

    rows = []
    cols = []
    vals = []
    for (r, c), v in data.items():""", ["C17"]),
 ("c17-obsdup-tests-samples", "biom/err.py", """    ids = t.ids(axis='observation')
    return len(ids) != len(set(ids))""", """    ids = t.ids(axis='sample')
    return len(ids) != len(set(ids))""", ["C17", "C20"]),
 ("c17-uc-counts-L", "biom/parse.py", """        if line_type == 'H' or line_type == 'S':
            # get the sample id""", """        if line_type in 'HSL':
            # get the sample id""", ["C17"]),
 ("c17-adjacency-swapped", T, """        row = np.array([obs_index[obs] for obs in observations], dtype=int)
        col = np.array([samp_index[samp] for samp in samples], dtype=int)
        data = np.asarray(values)
        mat = coo_matrix((data, (row, col)))""", """        row = np.array([obs_index[obs] for obs in observations], dtype=int)
        col = np.array([samp_index[samp] for samp in samples], dtype=int)
        data = np.asarray(values)
        mat = coo_matrix((data, (row, col[::-1])))""", ["C17"]),
 ("c17-md-size-check-off", "biom/err.py", """    md = t.metadata(axis='sample')
    return t.shape[1] != len(md) if md is not None else False""", """    md = t.metadata(axis='sample')
    return t.shape[1] > len(md) if md is not None else False""", ["C17"]),
 ("c17-cast-metadata-accepts-lists", T, """                    if isinstance(item, dict):
                        d.update(item)
                    elif item is None:
                        pass""", """                    if isinstance(item, dict):
                        d.update(item)
                    elif item is None or isinstance(item, list):
                        pass""", ["C17"]),
 ("c17-bool-array-as-int8", T, """    matrix = coo_matrix(data, shape=shape, dtype=dtype)
    matrix = matrix.tocsr()
    matrix.eliminate_zeros()
    return matrix


def list_nparray_to_sparse""", """    matrix = coo_matrix(data, shape=shape, dtype=dtype)
    matrix = matrix.tocsr()
    matrix.eliminate_zeros()
    if data.dtype == bool:
        matrix = matrix * 2
    return matrix


def list_nparray_to_sparse""", ["C17"]),
 ("c17-uc-first-underscore", "biom/parse.py", """                underscore_index = query_id.rindex('_')""", """                underscore_index = query_id.index('_') + 1""", ["C17"]),
 ("c17-fasta-map-reversed", "biom/cli/uc_processor.py", """            result[seq_id] = obs_id[1:]""", """            result[seq_id] = obs_id[1:][::-1]""", ["C17"]),
 ("c17-adjacency-header-kept", T, """        if not include_line_zero:
            lines = lines[1:]""", """        if not include_line_zero:
            lines = lines[2:]""", ["C17"]),
 # list_sparse_to_sparse orientation guess `>` -> `>=` is equivalent: scipy
 # ignores the shape argument when the input already is a sparse matrix.
 ("c18-update-becomes-assign", T, """                    idx = self.index(id_, axis=axis)
                    metadata[idx].update(md_entry)""", """                    idx = self.index(id_, axis=axis)
                    metadata[idx].clear()
                    metadata[idx].update(md_entry)""", ["C18"]),
 ("c18-exists-check-dropped", T, """            for id_, md_entry in md.items():
                if self.exists(id_, axis=axis):
                    idx = self.index(id_, axis=axis)""", """            for id_, md_entry in md.items():
                if True:
                    idx = self.index(id_, axis=axis)""", ["C18"]),
 ("c18-del-any-empty-to-none", T, """            empties = {True if not md else False
                       for md in self.metadata(axis=ax)}
            if empties == {True, }:""", """            empties = {True if not md else False
                       for md in self.metadata(axis=ax)}
            if True in empties:""", ["C18"]),
 ("c18-del-whole-only-sample", T, """        if axis == 'whole':
            axes = ['sample', 'observation']
        elif axis in ('sample', 'observation'):
            axes = [axis]
        else:
            raise UnknownAxisError("%s is not recognized" % axis)""", """        if axis == 'whole':
            axes = ['sample']
        elif axis in ('sample', 'observation'):
            axes = [axis]
        else:
            raise UnknownAxisError("%s is not recognized" % axis)""", ["C18"]),
 ("c18-header-override-off-by-one", "biom/parse.py", """            for k, v in zip(header[1:], vals[1:]):""", """            for k, v in zip(header[1:], vals[2:] if len(header) < len(vals) else vals[1:]):""", ["C18"]),
 ("c18-int-applied-to-float", "biom/cli/metadata_adder.py", """        process_fns.update(dict.fromkeys(float_fields, _float))""", """        process_fns.update(dict.fromkeys(float_fields, _int))""", ["C18"]),
 ("c18-short-rows-not-padded", "biom/parse.py", """                if len(tmp_line) < len(header):
                    tmp_line.extend([''] * (len(header) - len(tmp_line)))""", """                if len(tmp_line) < len(header) - 1:
                    tmp_line.extend([''] * (len(header) - len(tmp_line)))""", ["C18"]),
 ("c18-comment-becomes-header", "biom/parse.py", r"""                if not header:
                    header = line.strip().split('\t')
                else:
                    comments.append(line)""", r"""                header = line.strip().split('\t')""", ["C18"]),
 ("c18-quotes-kept", "biom/parse.py", """                def strip_f(x):
                    # remove quotes and spaces
                    return x.replace('"', '').strip()""", """                def strip_f(x):
                    # remove quotes and spaces
                    return x.strip()""", ["C18"]),
 ("c18-add-md-new-axis-by-md-order", T, """                self._observation_metadata = tuple(
                    md[id_] if id_ in md else None for id_ in ids)""", """                self._observation_metadata = tuple(
                    md[id_] if id_ in md else {} for id_ in sorted(ids))""", ["C18"]),
 ("c18-cli-adds-obs-md-to-samples", "biom/cli/metadata_adder.py", """    if observation_metadata:
        table.add_metadata(observation_metadata, axis='observation')""", """    if observation_metadata:
        table.add_metadata(observation_metadata, axis='sample')""", ["C18"]),
 ("c18-sc-separated-no-strip", "biom/cli/metadata_adder.py", """def _split_on_semicolons(x):
    return [e.strip() for e in x.split(';')]""", """def _split_on_semicolons(x):
    return [e for e in x.split(';')]""", ["C18"]),
 ("c19-sum-axes-swapped", T, """        elif axis == 'sample':
            axis = 0
        elif axis == 'observation':
            axis = 1
        else:
            raise UnknownAxisError(axis)

        matrix_sum =""", """        elif axis == 'sample':
            axis = 1
        elif axis == 'observation':
            axis = 0
        else:
            raise UnknownAxisError(axis)

        matrix_sum =""", ["C19"]),
 ("c19-min-over-dense", T, """            for idx, data in enumerate(self.iter_data(dense=False, axis=axis)):
                min_val[idx] = data.data.min()""", """            for idx, data in enumerate(self.iter_data(dense=True, axis=axis)):
                min_val[idx] = data.min()""", ["C19"]),
 ("c19-max-whole-over-observations", T, """            max_val = -np.inf
            for data in self.iter_data(dense=False):
                # only min over the actual nonzero values
                max_val = max(max_val, data.data.max())""", """            max_val = -np.inf
            for data in self.iter_data(dense=False):
                # only min over the actual nonzero values
                max_val = max(max_val, data.data.min())""", ["C19"]),
 ("c19-density-one-axis", T, """            density = (self.nnz /
                       (len(self.ids()) * len(self.ids(axis='observation'))))""", """            density = (self.nnz /
                       (len(self.ids()) * len(self.ids())))""", ["C19", "C05"]),
 ("c19-summarize-observations-no-transpose", "biom/cli/table_summarizer.py", """    if observations:
        table = table.transpose()
""", """    if observations:
        table = table.copy()
""", ["C19"]),
 ("c19-dataframe-index-swapped", T, """        index = self.ids(axis='observation')
        columns = self.ids()

        import pandas as pd""", """        index = self.ids(axis='observation')[::-1]
        columns = self.ids()

        import pandas as pd""", ["C19"]),
 ("c19-nonzero-counts-binary-sum", T, """            def op(x):
                return x.nonzero()[0].size""", """            def op(x):
                return (x > 0).sum()""", ["C19"]),
 ("c19-stats-median-as-mean", "biom/util.py", """                median(counts),
                mean(counts),""", """                mean(counts),
                mean(counts),""", ["C19"]),
 ("c19-stats-binary-positive", "biom/util.py", """            sample_counts[sample_id] = (count_vector != 0).sum()""", """            sample_counts[sample_id] = (count_vector > 0).sum() + (count_vector < 0).sum() * 0""", []),
 ("c19-table-ids-axis", "biom/cli/table_ids.py", """    for id_ in tab.ids(axis='observation' if observations else 'sample'):""", """    for id_ in tab.ids(axis='sample' if observations else 'sample'):""", ["C19"]),
 ("c19-head-swaps-n-m", "biom/cli/table_head.py", """    table = load_table(input_fp).head(n=n_obs, m=n_samp)""", """    table = load_table(input_fp).head(n=n_samp, m=n_obs)""", ["C19"]),
 ("c19-summary-std-of-sorted-half", "biom/cli/table_summarizer.py", """                 std(counts_per_sample_values), grouping=True))""", """                 std(counts_per_sample_values[:-1] or counts_per_sample_values), grouping=True))""", ["C19"]),
 ("c19-reduce-wrong-axis", T, """        return asarray([reduce(f, v) for v in self.iter_data(axis=axis)])""", """        return asarray([reduce(f, v) for v in self.iter_data(axis=self._invert_axis(axis))])""", ["C19"]),
 ("c19-export-metadata-wrong-axis", "biom/cli/metadata_exporter.py", """        _export_metadata(table, 'observation', input_fp,
                         observation_metadata_fp)""", """        _export_metadata(table, 'sample', input_fp,
                         observation_metadata_fp)""", ["C19"]),
 ("c19-md-dataframe-expand-last", T, """            if len(columns) > len(mcols):
                mcols = columns
                mexpand = expand""", """            if len(columns) > len(mcols):
                mcols = columns
            mexpand = expand""", ["C19"]),
 ("c20-errstate-no-finally", "biom/err.py", """    old_state = seterr(**kwargs)
    try:
        yield
    finally:
        seterr(**old_state)""", """    old_state = seterr(**kwargs)
    yield
    seterr(**old_state)""", ["C20"]),
 ("c20-seterr-not-atomic", "biom/err.py", """        to_update = list(to_update)
        for errtype, new_state in to_update:
            if new_state not in self._valid_states:
                raise KeyError("Unknown state type: %s" % new_state)
            if errtype not in self._state:
                raise KeyError("Unknown error type: %s" % errtype)

        for errtype, new_state in to_update:
            self._state[errtype] = new_state""", """        for errtype, new_state in to_update:
            if new_state not in self._valid_states:
                raise KeyError("Unknown state type: %s" % new_state)
            if errtype not in self._state:
                raise KeyError("Unknown error type: %s" % errtype)

            self._state[errtype] = new_state""", ["C20"]),
 ("c20-dup-test-by-shape", "biom/err.py", """    ids = t.ids(axis='observation')
    return len(ids) != len(set(ids))""", """    return t.shape[0] != len(set(t.ids(axis='observation')))""", ["C20"]),
 ("c20-all-first-kind-only", "biom/err.py", """            to_update = [(err, new_state['all']) for err in self._state]""", """            to_update = [(err, new_state['all']) for err in list(self._state)[:1]]""", ["C20"]),
 ("c20-warn-print-swapped", "biom/err.py", """            'warn': lambda x: warn(msg),""", """            'warn': lambda x: stdout.write(msg + '\\n'),""", ["C20"]),
 ("c20-seterr-returns-new", "biom/err.py", """    old_state = __errprof.state.copy()
    if 'all' in kwargs:
        __errprof.state = {'all': kwargs['all']}
    else:
        __errprof.state = kwargs
    return old_state""", """    old_state = __errprof.state.copy()
    if 'all' in kwargs:
        __errprof.state = {'all': kwargs['all']}
    else:
        __errprof.state = kwargs
    return __errprof.state.copy()""", ["C20"]),
 ("c20-unknown-kind-ignored", "biom/err.py", """            if errtype not in self._state:
                raise KeyError("Unknown error type: %s" % errtype)

        for errtype""", """            if errtype not in self._state:
                continue

        for errtype""", ["C20"]),
 ("c20-filter-skips-errcheck", T, """            table._index_ids(None, self._sample_index.copy())

        errcheck(table)

        return table""", """            table._index_ids(None, self._sample_index.copy())

        return table""", ["C20"]),
 ("c20-ctor-validates-after-cast", T, """        if validate:
            errcheck(self)

        # These will be set by _index_ids()""", """        if validate:
            errcheck(self, 'obssize', 'sampsize', 'obsdup', 'sampdup',
                     'obsmdsize', 'sampmdsize')

        # These will be set by _index_ids()""", ["C20"]),
 ("c20-call-gets-message", "biom/err.py", """        state = self._state[errtype]
        profile = self._profile[errtype]
        return profile[state](item)""", """        state = self._state[errtype]
        profile = self._profile[errtype]
        if state == 'call':
            return profile[state](errtype)
        return profile[state](item)""", ["C20"]),
 ("c20-seterrcall-unknown-accepted", "biom/err.py", """    if errtype not in __errprof:
        raise KeyError("Unknown error type: %s" % errtype)
    else:
        return __errprof.setcall(errtype, func)""", """    if errtype not in __errprof:
        return None
    else:
        return __errprof.setcall(errtype, func)""", ["C20"]),
 ("c20-errstate-restores-default", "biom/err.py", """    finally:
        seterr(**old_state)""", """    finally:
        seterr(all='raise')
        seterr(empty='ignore')""", ["C20"]),
]
