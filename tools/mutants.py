"""Seeded breakages used by tools/muttest.py (DESIGN 2.6).  Each entry:
(name, file relative to the repo root, old text, new text, [properties that must catch it])."""
T = "biom/table.py"
MUTANTS = [
 # ("c16-eq-raw-nnz": reverting the equality fix) is an *equivalent* mutant on
 # the repaired tree: with stored zeros eliminated at construction and after
 # subsample, no public route reaches a table with stored zeros any more.
 ("c16-eq-ids-as-sets", T, """        if not np.array_equal(self.ids(), other.ids()):
            return False
        if not np.array_equal(self.metadata(axis='observation'),""",
  """        if set(self.ids()) != set(other.ids()):
            return False
        if not np.array_equal(self.metadata(axis='observation'),""", ["C16"]),
 ("c16-eq-skip-obs-md", T, """        if not np.array_equal(self.metadata(axis='observation'),
                              other.metadata(axis='observation')):
            return False
        if not np.array_equal(self.metadata(), other.metadata()):
            return False
        if not self._data_equality(other._data):
            return False

        return True""", """        if not np.array_equal(self.metadata(), other.metadata()):
            return False
        if not self._data_equality(other._data):
            return False

        return True""", ["C16"]),
 ("c16-copy-drops-type", T, """                              self.table_id,
                              type=self.type)""", """                              self.table_id)""", ["C16", "C06"]),
 ("c08-drop-invert", "biom/table.py", """                                     axis,
                                     invert=invert)""", """                                     axis,
                                     invert=False)""", ["C08"]),
 ("c08-remove-empty-sum", T, "table.ids(axis=ax)[table.nonzero_counts(ax) > 0]", "table.ids(axis=ax)[table.sum(axis=ax) > 0]", ["C08"]),
 ("c08-no-sort-indices", T, "        arr.sort_indices()\n", "", ["C08"]),
 ("c08-head-off-by-one", T, "row_ids = self.ids(axis='observation')[:n]", "row_ids = self.ids(axis='observation')[:max(n - 1, 1)]", ["C08"]),
 ("c08-filter-stale-index", T, "            table._index_ids(self._obs_index.copy(), None)", "            table._index_ids(self._obs_index.copy(), self._sample_index.copy())", ["C08", "C05"]),
 ("c06-md-not-reordered", T, """        if metadata is not None:
            metadata = np.array(metadata)[fancy]

        if axis == 'sample':""", """        if axis == 'sample':""", ["C06"]),
 ("c06-sort-order-keeps-ids", T, """                                  self.ids(axis='observation')[:], order[:],
                                  self.metadata(axis='observation'), metadata,""",
  """                                  self.ids(axis='observation')[:], self.ids()[:],
                                  self.metadata(axis='observation'), metadata,""", ["C06"]),
 ("c06-update-ids-width", T, "            max_str_len = max(max_str_len, max([len(i) for i in ids]))", "            pass", ["C06"]),
 ("c06-transpose-md-not-swapped", T, """                              self.ids()[:], self.ids(axis='observation')[:],
                              sample_md_copy, obs_md_copy, self.table_id)""", """                              self.ids()[:], self.ids(axis='observation')[:],
                              obs_md_copy, sample_md_copy, self.table_id)""", ["C06"]),
 ("c06-align-detect-skips-obs", T, """            if alignable_o:
                order.append('observation')""", """            if alignable_o and not alignable_s:
                order.append('observation')""", ["C06"]),
 ("c05-update-ids-no-reindex", T, """        result._index_ids(None, None)

        # check for errors""", """        # check for errors""", ["C05", "C06"]),
 ("c05-add-metadata-md-order", T, """                self._sample_metadata = tuple(
                    md[id_] if id_ in md else None for id_ in ids)""", """                self._sample_metadata = tuple(
                    md[id_] for id_ in md if id_ in set(ids))""", ["C05"]),
 ("c05-transpose-ids-only", T, """        return self.__class__(self._data.transpose(copy=True),
                              self.ids()[:], self.ids(axis='observation')[:],""", """        return self.__class__(self._data.copy(),
                              self.ids()[:], self.ids(axis='observation')[:],""", ["C05", "C06"]),
 ("c05-nonzero-csc-bug", T, """        csr = self._data.tocsr()
        samp_ids = self.ids()""", """        csr = self._data
        samp_ids = self.ids()""", ["C05"]),
 ("c05-density-wrong-axis", T, """            density = (self.nnz /
                       (len(self.ids()) * len(self.ids(axis='observation'))))""", """            density = (self.nnz /
                       (len(self.ids()) * len(self.ids())))""", ["C05"]),
 ("c07-inplace-ignored", T, """        table = self if inplace else self.copy()

        metadata = table.metadata(axis=axis)
        ids = table.ids(axis=axis)
        arr = table._get_sparse_data(axis=axis)""", """        table = self

        metadata = table.metadata(axis=axis)
        ids = table.ids(axis=axis)
        arr = table._get_sparse_data(axis=axis)""", ["C07"]),
 # Equivalent on this tree (not observable through table operations, see
 # DESIGN 5/C07): copy() without deepcopy of metadata (the constructor re-wraps
 # every entry in a fresh defaultdict; only nested value objects stay shared)
 # and astype(copy=False) in the constructor (every internal caller already
 # hands over a fresh matrix).
 ("c07-head-filters-receiver", T, """        table = self.filter(row_ids, axis='observation', inplace=False)
        return table.filter(col_ids, axis='sample')""", """        table = self.filter(row_ids, axis='observation', inplace=True)
        return table.filter(col_ids, axis='sample', inplace=False)""", ["C07"]),
 ("c07-norm-always-inplace", T, """            return val / float(val.sum())

        return self.transform(f, axis=axis, inplace=inplace)""", """            return val / float(val.sum())

        return self.transform(f, axis=axis, inplace=True)""", ["C07"]),
 ("c07-subsample-no-copy", T, """        table = self.copy()

        rng = np.random.default_rng(seed)""", """        table = self

        rng = np.random.default_rng(seed)""", ["C07"]),
 ("c07-sort-order-identity-self", T, """        fancy = np.array([self.index(i, axis=axis) for i in order], dtype=int)
        metadata = self.metadata(axis=axis)""", """        fancy = np.array([self.index(i, axis=axis) for i in order], dtype=int)
        if list(order) == list(self.ids(axis=axis)):
            return self
        metadata = self.metadata(axis=axis)""", ["C07"]),
 ("c07-remove-empty-inplace-flag", T, """        if inplace:
            table = self
        else:
            table = self.copy()

        if axis == 'whole':""", """        if not inplace:
            table = self
        else:
            table = self.copy()

        if axis == 'whole':""", ["C07"]),
 ("c01-ids-latin1", T, """                                   data=[i.encode('utf8') for i in ids],""", """                                   data=[i.encode('latin-1', 'replace') for i in ids],""", ["C01", "C04"]),
 ("c01-md-reversed", T, """                           data=[m[header].encode('utf8') for m in md],""", """                           data=[m[header].encode('utf8') for m in md][::-1],""", ["C01", "C04"]),
 ("c01-no-slash-unescape", T, """                category = category.replace('@@SLASH@@', '/')
                parse_f = parser[category]""", """                parse_f = parser[category]""", ["C01"]),
 ("c01-type-empty-string", T, """        type_ = None if h5grp.attrs['type'] == '' else h5grp.attrs['type']""", """        type_ = h5grp.attrs['type']""", ["C01"]),
 ("c01-swap-id-generatedby", T, """        h5grp.attrs['generated-by'] = generated_by
        if creation_date is None:""", """        h5grp.attrs['generated-by'] = h5grp.attrs['id']
        if creation_date is None:""", ["C01", "C04"]),
 ("c01-indices-int16-uncompressed", T, """            grp.create_dataset('matrix/indices', shape=(len_data,),
                               dtype=np.int32,""", """            grp.create_dataset('matrix/indices', shape=(len_data,),
                               dtype=np.int32 if compression else np.int8,""", ["C04"]),
 ("c01-float32-data", T, """            grp.create_dataset('matrix/data', shape=(len_data,),
                               dtype=np.float64,""", """            grp.create_dataset('matrix/data', shape=(len_data,),
                               dtype=np.float32,""", ["C01", "C04"]),
 ("c01-groupmd-dropped-obs", T, """            group_md = self.group_metadata(axis)
""", """            group_md = self.group_metadata(axis) if axis == 'sample' else None
""", ["C01", "C04"]),
 ("c04-csc-gets-csr-indices", T, """            self._data = self._data.asformat(order)

            ids = self.ids(axis=axis)""", """            self._data = self._data.asformat('csr')

            ids = self.ids(axis=axis)""", ["C04", "C01"]),
 ("c04-shape-transposed", T, """        h5grp.attrs['shape'] = self.shape""", """        h5grp.attrs['shape'] = self.shape[::-1]""", ["C04"]),
 ("c04-no-group-metadata-group", T, """            grp.create_group('group-metadata')

            if group_md:""", """            if group_md:
                grp.create_group('group-metadata')
            if group_md:""", ["C04"]),
 # ("c04-nnz-stale": nnz attribute from the raw stored count) is equivalent on
 # the repaired tree: stored zeros are eliminated at construction.
 ("c04-indptr-int64", T, """            grp.create_dataset('matrix/indptr', shape=(len_indptr,),
                               dtype=np.int32,""", """            grp.create_dataset('matrix/indptr', shape=(len_indptr,),
                               dtype=np.int64,""", ["C04"]),
 ("c02-triple-swapped", T, """"[%d,%d,%r]" % (obs_index, col_index, float(val))""", """"[%d,%d,%r]" % (col_index, obs_index, float(val))""", ["C02"]),
 ("c02-value-percent-f", T, """"[%d,%d,%r]" % (obs_index, col_index, float(val))""", """"[%d,%d,%f]" % (obs_index, col_index, val)""", ["C02"]),
 ("c02-value-percent-g", T, """"[%d,%d,%r]" % (obs_index, col_index, float(val))""", """"[%d,%d,%.15g]" % (obs_index, col_index, val)""", ["C02"]),
 ("c02-directio-drops-type", T, """        if direct_io:
            direct_io.write(type_)
""", """        if direct_io:
            pass
""", ["C02"]),
 ("c02-id-not-escaped", T, """                    f'{{"id": {dumps(obs[1])}, "metadata": {dumps(obs[2])}}},'""", """                    f'{{"id": "{obs[1]}", "metadata": {dumps(obs[2])}}},'""", ["C02"]),
 ("c02-fromjson-columns-twice", T, """        obs_ids = [row['id'] for row in json_table['rows']]
        obs_metadata = [row['metadata'] for row in json_table['rows']]""", """        obs_ids = [row['id'] for row in json_table['rows']]
        obs_metadata = [row['metadata'] for row in json_table['columns']]""", ["C02"]),
 ("c02-generatedby-unescaped", T, """            generated_by = '"generated_by": %s,' % dumps(generated_by)""", """            generated_by = '"generated_by": "%s",' % generated_by""", ["C02"]),
 ("c02-date-dropped-on-read", T, """                create_date = datetime.fromisoformat(json_table['date'])""", """                create_date = datetime.fromisoformat(json_table['date'][:10])""", ["C02"]),
 ("c02-npencoder-float32-str", T, """        if isinstance(obj, np.floating):
            return float(obj)""", """        if isinstance(obj, np.floating):
            return float(str(obj))""", ["C02"]),
 ("c03-gz-reader-latin1", "biom/util.py", """            return codecs.getreader('utf-8')(gzip_open(fp, mode))""", """            return codecs.getreader('latin-1')(gzip_open(fp, mode))""", ["C03"]),
 ("c03-isfloat-accepts-empty", T, """            try:
                float(value)
                return True
            except ValueError:
                return False

        if not isinstance(lines, list):""", """            if value == '':
                return True
            try:
                float(value)
                return True
            except ValueError:
                return False

        if not isinstance(lines, list):""", ["C03"]),
 ("c03-fields-off-by-one", T, """                    values = list(map(dtype, fields[1:-1]))""", """                    values = list(map(dtype, fields[2:-1]))""", ["C03"]),
 ("c03-values-percent-g", T, """            str_obs_vals = delim.join(map(str, self._to_dense(obs_values)))""", """            str_obs_vals = delim.join('%g' % v for v in self._to_dense(obs_values))""", ["C03"]),
 ("c03-rsplit-to-split", T, """        last_values = [line.rsplit(delim, 1)[-1].strip()""", """        last_values = [line.split(delim, 1)[-1].strip()""", ["C03"]),
 ("c03-header-ids-stripped", T, """            header = line.strip().split(delim)[1:]""", """            header = [h.strip() for h in line.strip().split(delim)[1:]]
            header = [h.lstrip('0') or h for h in header]""", ["C03"]),
 ("c03-single-sample-md-guess", T, """        if last_column_is_numeric or data_start == 0:""", """        if (last_column_is_numeric and len(header) > 1) or data_start == 0:""", ["C03"]),
 ("c03-convert-formatter-comma", "biom/cli/table_converter.py", """    'sc_separated': lambda x: '; '.join(x),""", """    'sc_separated': lambda x: ', '.join(x),""", ["C03"]),
 ("c03-zero-skip-threshold", T, """                if values[column_number] != dtype(0):""", """                if abs(values[column_number]) > 1e-300:""", ["C03"]),
 ("c14-slicer-lookup-unsorted", "biom/parse.py", """    new_data = []
    remap_lookup = {str(v): i for i, v in enumerate(sorted(to_keep))}
    for rcv in data.split('],'):
        if not strip_f(rcv):
            continue
        r, c, v = map(strip_f, rcv.split(','))""", """    new_data = []
    remap_lookup = {str(v): i for i, v in enumerate(sorted(to_keep, key=str))}
    for rcv in data.split('],'):
        if not strip_f(rcv):
            continue
        r, c, v = map(strip_f, rcv.split(','))""", ["C14"]),
 ("c14-subset-no-issubset-check", "biom/parse.py", """    if not to_keep.issubset(all_ids):
        raise KeyError("Not all of the to_keep ids are in biom_str!")
""", "", ["C14"]),
 ("c14-h5-indptr-unsorted-pairs", T, """            indptr_indices = sorted(
                (h5_indptr[i], h5_indptr[i+1]) for i in keep
            )""", """            indptr_indices = sorted(
                ((h5_indptr[i], h5_indptr[i+1]) for i in keep),
                key=lambda se: se[1] - se[0])""", ["C14"]),
 ("c14-h5-md-wrong-mask", T, """            obs_md = _subset_metadata(obs_md, obs_idx)
            samp_md = _subset_metadata(samp_md, samp_idx)""", """            obs_md = _subset_metadata(obs_md, obs_idx)
            samp_md = _subset_metadata(samp_md, samp_idx[::-1])""", ["C14"]),
 ("c14-h5-no-empty-drop", T, """            axis = 'observation' if axis == 'sample' else 'sample'
            t.filter(any_value, axis=axis)

        return t""", """            axis = 'observation' if axis == 'sample' else 'sample'

        return t""", ["C14"]),
 ("c14-h5-unknown-ids-ignored", T, """                    if ids.shape != desired_ids.shape:
                        raise ValueError(""", """                    if ids.shape[0] == 0:
                        raise ValueError(""", ["C14"]),
 ("c14-nomd-cumsum-off", T, """            indptr[1:] = np.array([e - s for s, e in start_end]).cumsum()""", """            indptr[1:] = np.array([e - s for s, e in start_end][::-1]).cumsum()""", ["C14"]),
 ("c14-parse-json-no-drop", "biom/parse.py", """        axis = 'observation' if axis == 'sample' else 'sample'
        t.filter(gt_zero, axis=axis)""", """        axis = 'observation' if axis == 'sample' else 'sample'""", ["C14"]),
 ("c14-slicer-strip-regress", "biom/parse.py", """        r, c, v = map(strip_f, rcv.split(','))
        if c in remap_lookup:""", """        r, c, v = rcv.split(',')
        if c in remap_lookup:""", ["C14"]),
 ("c14-cli-ids-file-keeps-comments", "biom/cli/table_subsetter.py", r"""            if not line.startswith('#'):
                ids.append(line.strip().split('\t')[0])""", r"""            if True:
                ids.append(line.strip().split('\t')[0])""", ["C14"]),
 ("c15-no-rows-crosscheck", "biom/cli/table_validator.py", """            if ('rows' in table_json and
                    len(table_json['rows']) != table_json['shape'][0]):""", """            if ('rows' in table_json and
                    len(table_json['rows']) < table_json['shape'][0]):""", ["C15"]),
 ("c15-x-bound-loosened", "biom/cli/table_validator.py", """            if x < 0 or x > n_rows:""", """            if x < 0 or x > n_rows + 1:""", ["C15"]),
 ("c15-negative-coord-allowed", "biom/cli/table_validator.py", """            if y < 0 or y > n_cols:""", """            if y > n_cols:""", ["C15"]),
 ("c15-metadata-accepts-lists", "biom/cli/table_validator.py", """        if isinstance(record['metadata'], dict):
            return ''""", """        if isinstance(record['metadata'], (dict, list)):
            return ''""", ["C15"]),
 ("c15-required-datasets-shortened", "biom/cli/table_validator.py", """                             'sample/matrix/indices',
                             'sample/matrix/indptr']""", """                             'sample/matrix/indices']""", ["C15"]),
 ("c15-required-key-date-dropped", "biom/cli/table_validator.py", """            ('id', self._valid_nullable_id),
            ('date', self._valid_datetime)
        ]""", """            ('id', self._valid_nullable_id),
        ]""", ["C15"]),
 ("c15-h5-missing-attr-not-fatal", "biom/cli/table_validator.py", """            if required_attr not in table.attrs:
                valid_table = False""", """            if required_attr not in table.attrs:
                valid_table = valid_table and required_attr != 'nnz'""", ["C15"]),
 ("c15-h5-samp-count-unchecked", "biom/cli/table_validator.py", """            if n_samp != len(samp_ids):
                valid_table = False""", """            if n_samp < len(samp_ids):
                valid_table = False""", ["C15"]),
 ("c15-value-type-unchecked", "biom/cli/table_validator.py", """            if not isinstance(val, dtype):
                return "Bad value at idx %d: %s" % (idx, repr(coord))""", """            if val is None:
                return "Bad value at idx %d: %s" % (idx, repr(coord))""", ["C15"]),
 ("c15-dup-id-check-rows-only", "biom/cli/table_validator.py", """        ids = [col['id'] for col in table_json['columns']]
        if len(ids) != len(set(ids)):""", """        ids = [col['id'] for col in table_json['columns']]
        if len(ids) != len(ids):""", ["C15"]),
 ("c15-type-none-valid-writer", T, """        if self.type is None:
            type_ = '"type": null,'""", """        if self.type is None or self.type == 'Gene table':
            type_ = '"type": null,'""", ["C15", "C02"]),
 ("c15-fromjson-ignores-shape", T, """            return coo_matrix(shape if shape is not None else (0, 0))""", """            return coo_matrix((0, 0))""", ["C15", "C02"]),
]
