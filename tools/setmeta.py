#!/venv/bin/python
"""tools/setmeta.py NAME decided_by=C09,C10 judgement='...' | excluded='...'"""
import json, sys
name = sys.argv[1]
p = "/verif/seeded/%s/meta.json" % name
m = json.load(open(p))
for a in sys.argv[2:]:
    k, v = a.split("=", 1)
    m[k] = v.split(",") if k == "decided_by" else v
json.dump(m, open(p, "w"), indent=1, ensure_ascii=False)
