#!/usr/bin/env python3
"""Confirm a sub-agent's seeded breakage in its scratch worktree and file it
under /verif/seeded/<ID>-<K>/ (patch.diff, demo.py, note.md, meta.json).
    tools/ingest_seed.py C08 [C09 ...]
Confirmation = demo passes on the clean tree, patch applies, the repository's
own suite still passes completely, demo fails with the patch, tree reverted."""
import json, os, re, shutil, subprocess, sys
HERE = os.path.dirname(os.path.dirname(os.path.abspath(__file__)))

def sh(cmd, cwd, env=None):
    return subprocess.run(cmd, shell=True, cwd=cwd, capture_output=True, text=True, env=env)

def main():
    args = sys.argv[1:]
    rnd = 1
    if args and args[0] == "--round":
        rnd = int(args[1])
        args = args[2:]
    for pid in args:
        wt = "/tmp/w%s-c%s" % ("tuvwxyzabcdefgh"[rnd - 1], pid[1:])
        src = ("/tmp/seed-out/%s" if rnd == 1 else "/tmp/seed%d/%%s" % rnd) % pid
        env = dict(os.environ, PYTHONPATH=wt)
        for k in (1, 2, 3):
            patch = os.path.join(src, "patch%d.diff" % k)
            demo = os.path.join(src, "demo%d.py" % k)
            if not (os.path.exists(patch) and os.path.exists(demo)):
                continue
            sh("git checkout -q -- .", wt)
            clean = sh("/venv/bin/python %s" % demo, wt, env)
            ap = sh("git apply %s" % patch, wt)
            if ap.returncode:
                print(pid, k, "PATCH DOES NOT APPLY", ap.stderr[:200]); continue
            tests = sh("/venv/bin/python -m pytest -q -p no:cacheprovider -n 6 biom 2>&1 | tail -1", wt).stdout.strip()
            broken = sh("/venv/bin/python %s" % demo, wt, env)
            files = sh("git diff --stat | tail -1", wt).stdout.strip()
            sh("git checkout -q -- .", wt)
            ok = (clean.returncode == 0 and broken.returncode != 0 and
                  re.search(r"(\d+) passed", tests) and "failed" not in tests
                  and int(re.search(r"(\d+) passed", tests).group(1)) >= 377)
            print("%s-%d clean_rc=%d patched_rc=%d tests=[%s] %s -> %s" % (
                pid, k, clean.returncode, broken.returncode, tests, files, "CONFIRMED" if ok else "REJECTED"))
            if not ok:
                continue
            out = os.path.join(HERE, "seeded", "%s-%d" % (pid, k + 2 * (rnd - 1)))
            os.makedirs(out, exist_ok=True)
            shutil.copy(patch, os.path.join(out, "patch.diff"))
            shutil.copy(demo, os.path.join(out, "demo.py"))
            note = os.path.join(src, "note%d.md" % k)
            if os.path.exists(note):
                shutil.copy(note, os.path.join(out, "note.md"))
            meta = {"property": pid,
                    "origin": "independent sub-agent given only the property text and a scratch worktree",
                    "needs": open(note).read() if os.path.exists(note) else "",
                    "confirmed": {"demo_on_clean_tree_rc": clean.returncode,
                                  "demo_with_patch_rc": broken.returncode,
                                  "repository_suite_with_patch": tests,
                                  "demo_failure_tail": (broken.stdout + broken.stderr)[-400:]},
                    "what_was_run": ["git checkout -- . ; PYTHONPATH=<worktree> /venv/bin/python demo.py  (exit 0)",
                                     "git apply patch.diff ; /venv/bin/python -m pytest -q -p no:cacheprovider -n 6 biom",
                                     "PYTHONPATH=<worktree> /venv/bin/python demo.py  (exit != 0) ; git checkout -- ."]}
            json.dump(meta, open(os.path.join(out, "meta.json"), "w"), indent=1)

if __name__ == "__main__":
    main()
