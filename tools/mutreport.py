#!/usr/bin/env python3
"""Markdown summary of a tools/muttest.py log (stdin) for DESIGN.md section 10."""
import re, sys, collections
rows = []
for line in sys.stdin:
    m = re.match(r"^(c\d\d-\S+)\s+(C\d\d)\s+(\S+)\s+([\d.]+)s\s*(.*)$", line)
    if m:
        rows.append(m.groups())
by = collections.OrderedDict()
for name, prop, verdict, secs, sub in rows:
    by.setdefault(prop, []).append((name, verdict, float(secs), sub.strip()))
print("| property | mutants run | caught | not caught | median time to catch | sub-checks that fired |")
print("|---|---|---|---|---|---|")
for prop in sorted(by):
    r = by[prop]
    caught = [x for x in r if x[1] == "caught"]
    missed = [x[0] for x in r if x[1] != "caught"]
    t = sorted(x[2] for x in caught)
    subs = collections.Counter(x[3].split(":")[0].split("@")[0] for x in caught)
    print("| %s | %d | %d | %s | %.1fs | %s |" % (
        prop, len(r), len(caught), ", ".join(missed) or "-",
        t[len(t) // 2] if t else 0.0,
        ", ".join("%s x%d" % kv for kv in subs.most_common(6))))
