#!/bin/bash
# run every claimed check's quick (or $TIER) command; print one line each
cd "$(dirname "$0")/.."
TIER=${TIER:-quick}
for p in $(/venv/bin/python -c "import json;print(' '.join(c['property_id'] for c in json.load(open('MANIFEST.json'))['checks']))"); do
  if [ -n "$1" ] && [[ ! " $* " =~ " $p " ]]; then continue; fi
  out=$(/venv/bin/python -m vf.check $p --tier $TIER 2>&1); rc=$?
  echo "$p rc=$rc $(echo "$out" | grep -E '^(OK|VIOLATION|HARNESS|KNOWN)' | tr '\n' ' ')"
done
