#!/usr/bin/env python3
"""Regenerate MANIFEST.json from the table below (single source of truth)."""
import json, os, sys
HERE = os.path.dirname(os.path.dirname(os.path.abspath(__file__)))
PY = "/venv/bin/python"

# id -> (level, technique, level text, level note, design ref)
CHECKS = {}

def add(pid, level, technique, text, note, ref):
    CHECKS[pid] = (level, technique, text, note, ref)

TB = ("Trusted base: CPython, numpy, scipy.sparse.toarray, h5py, stdlib json/gzip, "
      "Hypothesis; compiled kernels are exercised as built (Cython is not available "
      "in the sandbox, so .pyx edits cannot be rebuilt).")

exec(open(os.path.join(HERE, "tools", "manifest_table.py")).read())

props = [json.loads(l) for l in open(os.path.join(HERE, "properties.jsonl"))]
checks, na = [], []
for p in props:
    pid = p["id"]
    if pid in CHECKS:
        level, tech, text, note, ref = CHECKS[pid]
        checks.append({
            "property_id": pid,
            "quick_cmd": "%s -m vf.check %s --tier quick" % (PY, pid),
            "thorough_cmd": "%s -m vf.check %s --tier thorough" % (PY, pid),
            "evidence_file": "/verif/evidence/%s.json" % pid,
            "replay_cmd_template": "%s -m vf.check %s --replay {path}" % (PY, pid),
            "engine": "vf",
            "level_claimed": {"category": level, "text": text, "design_ref": ref},
            "level_note": note + " " + TB,
            "technique": tech,
        })
    else:
        na.append({"property_id": pid, "reason": NOT_BUILT.get(pid, "check not built yet (work in progress); not claimed")})
man = {
    "version": 1,
    "setup_cmd": "(/venv/bin/python -c 'import hypothesis, numpy, scipy, h5py' || /venv/bin/pip install --no-index --find-links /opt/veriftools/wheels hypothesis) && (test -d /verif/.deps/atheris || /venv/bin/pip install -q --no-index --find-links /opt/veriftools/wheels --target /verif/.deps atheris || echo 'atheris not installed: thorough-tier coverage-guided campaigns will be skipped')",
    "hooks": {"guard": "BIOM_FORMAT_VERIF", "enable": "none needed: every observation point is public API, a written file or CLI output; checks import biom from /repo's working tree", "baseline_off_cmd": "cd /repo && /venv/bin/python -m pytest -ra -q -p no:cacheprovider --timeout=900 --continue-on-collection-errors", "source_commits": [], "add_only": True},
    "engines": [{"name": "vf", "path": "/verif/vf", "serves_properties": sorted(CHECKS), "kind_free_text": "Hypothesis 6.168 property-based testing (sharded, seeded via VERIF_SEED), exhaustive enumeration of small finite sub-domains, pinned regression cases, and (thorough tier, C03/C14/C15/C17/C18) atheris 3.1 coverage-guided campaigns driving the same properties through fuzz_one_input; cases are plain JSON and double as replay files"}],
    "checks": checks,
    "not_applicable": na,
    "notes": "See DESIGN.md. Known genuine defects are listed in KNOWN_FINDINGS.txt (known:/fixed: lines). Sensitivity of every check was measured against hand-written mutants (DESIGN 10, tools/muttest.py) and against independently seeded changes kept under seeded/ (DESIGN 11, seeded/INDEX.md, tools/seedtest.py).",
}
json.dump(man, open(os.path.join(HERE, "MANIFEST.json"), "w"), indent=1)
print("claimed:", sorted(CHECKS), "not claimed:", [x["property_id"] for x in na])
