#!/bin/bash
# every claimed check's thorough command, one line each with wall time
cd "$(dirname "$0")/.."
export VF_OUT=${VF_OUT:-/dev/shm/vf-thorough-$$}
mkdir -p "$VF_OUT"
for p in $(/venv/bin/python -c "import json;print(' '.join(c['property_id'] for c in json.load(open('MANIFEST.json'))['checks']))"); do
  if [ -n "$1" ] && [[ ! " $* " =~ " $p " ]]; then continue; fi
  s=$(date +%s)
  out=$(/venv/bin/python -m vf.check $p --tier thorough 2>&1); rc=$?
  echo "$p rc=$rc $(( $(date +%s) - s ))s $(echo "$out" | grep -E '^(OK|VIOLATION|HARNESS|failed|detail)' | cut -c1-400 | tr '\n' ' ')"
done
rm -rf "$VF_OUT"
echo "thorough done"
